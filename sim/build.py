"""Scratch copy + in-place build of /repo's current working tree."""

import os
import shutil
import subprocess
import sys
import tempfile

REPO = os.environ.get("VERIF_REPO", "/repo")
PY = "/venv/bin/python"


def scratch_root():
    for d in ("/dev/shm", os.environ.get("TMPDIR") or "/tmp"):
        if os.path.isdir(d) and os.access(d, os.W_OK):
            return d
    return "/tmp"


def make_scratch(repo=REPO):
    """Copy the working tree (no .git, no build output) and build the C
    extensions in place. Returns the scratch directory."""
    root = tempfile.mkdtemp(prefix="psutil-verif-", dir=scratch_root())
    dst = os.path.join(root, "tree")

    def ignore(d, names):
        out = set()
        for n in names:
            if n in (".git", "build", "dist", "__pycache__", ".pytest_cache",
                     "docs", ".github") or n.endswith((".so", ".pyc", ".o")):
                out.add(n)
            if d.endswith("psutil") and n == "tests":
                out.add(n)
        return out

    shutil.copytree(repo, dst, ignore=ignore, symlinks=True)
    patch = os.environ.get("VERIF_PATCH")
    if patch:
        # self-test only: a mutant applied to the scratch copy, never to /repo
        r = subprocess.run(["git", "apply", "--whitespace=nowarn", patch],
                           cwd=dst, stdout=subprocess.PIPE,
                           stderr=subprocess.STDOUT, text=True)
        if r.returncode != 0:
            shutil.rmtree(root, ignore_errors=True)
            raise RuntimeError("VERIF_PATCH does not apply: " + r.stdout)
    env = dict(os.environ)
    env.pop("PYTHONHASHSEED", None)
    env["PSUTIL_DEBUG"] = ""
    env.pop("PSUTIL_DEBUG", None)
    r = subprocess.run([PY, "setup.py", "build_ext", "--inplace", "-q"],
                       cwd=dst, env=env, stdout=subprocess.PIPE,
                       stderr=subprocess.STDOUT, text=True)
    if r.returncode != 0:
        shutil.rmtree(root, ignore_errors=True)
        raise RuntimeError("build of /repo working tree failed:\n" +
                           r.stdout[-4000:])
    # build dir is not needed once the .so files are in place
    shutil.rmtree(os.path.join(dst, "build"), ignore_errors=True)
    return root, dst


def remove_scratch(root):
    shutil.rmtree(root, ignore_errors=True)


if __name__ == "__main__":
    root, dst = make_scratch()
    print(root, dst)
    print(os.listdir(dst + "/psutil"))
    remove_scratch(root)
