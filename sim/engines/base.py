"""Common engine plumbing."""

import random

from .. import seams
from .. import kernel as K
from ..runner import H


BOOT_DIMS = ("cpu_fields", "has_rollup", "has_smaps", "has_io", "cpu_ids",
             "cpufreq_layout", "sysconf_fail", "stat_short")


class EngineBase:
    name = "base"
    SHRINK_LISTS = [("ops",), ("events",)]

    # boot world: what psutil sees while being imported (DESIGN 3.2, 5.2)
    def boot_config(self, rng):
        ncpu = rng.choice([1, 2, 2, 3, 4, 8])
        ids = list(range(ncpu))
        if ncpu > 2 and rng.random() < 0.25:
            ids.remove(rng.choice(ids[1:]))      # hole: an offline CPU
        r = rng.random()
        if r < 0.08:
            ids = list(range(12))                # two-digit CPU numbers
        elif r < 0.16:
            ids = [0, 5, 10, 15] if rng.random() < 0.5 else [0, 2, 10, 11]
        return {
            "cpu_fields": rng.choice([10, 10, 10, 9, 8, 7]),
            "has_rollup": rng.random() < 0.7,
            "has_smaps": True,
            "has_io": rng.random() < 0.9,
            "cpu_ids": ids,
        }

    def make_kernel(self, boot, world):
        cfg = dict(boot)
        if world:
            for k, v in world.items():
                if k in BOOT_DIMS and k in boot:
                    continue        # import-time facts cannot change later
                cfg[k] = v
        return K.SimKernel(cfg)

    def import_psutil(self, scratch, kernel, boot):
        return seams.import_psutil(scratch, kernel)

    def install(self, k):
        seams.State.kernel = k
        seams.State.unmodelled = []

    def simplify(self, plan):
        return ()

    def rng(self, *parts):
        return random.Random(H(*parts))


def exc_class(psutil, e):
    """Outcome class of an exception."""
    if isinstance(e, psutil.ZombieProcess):
        return "ZP"
    if isinstance(e, psutil.NoSuchProcess):
        return "NSP"
    if isinstance(e, psutil.AccessDenied):
        return "AD"
    if isinstance(e, psutil.TimeoutExpired):
        return "TE"
    return type(e).__name__


def is_harness_exc(e):
    return isinstance(e, (seams.HarnessError, K.StepLimit, MemoryError,
                          RecursionError, KeyboardInterrupt, SystemExit))
