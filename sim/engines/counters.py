"""counters engine -- C07 (CPU times / percentages) and C10 (nowrap counters).

C10: histories of raw /proc/net/dev and /proc/diskstats snapshots (wraps,
devices leaving / returning / all gone, cache_clear, alternating nowrap, the two
functions interleaved) checked against a 30-line sequential reference model.
C07: histories of per-CPU tick tables over virtual time; blocking forms sleep
on the virtual clock while tick events fire; the oracle knows which /proc/stat
version every read returned.
"""

import json
from fractions import Fraction

from .base import EngineBase, exc_class, is_harness_exc
from ..runner import sig_of
from ..kernel import CLK_TCK

NET_COLS = (8, 0, 9, 1, 2, 10, 3, 11)   # kernel column -> psutil field order
NET_FIELDS = ("bytes_sent", "bytes_recv", "packets_sent", "packets_recv",
              "errin", "errout", "dropin", "dropout")
DISK_FIELDS = ("read_count", "write_count", "read_bytes", "write_bytes",
               "read_time", "write_time", "read_merged_count",
               "write_merged_count", "busy_time")


def net_raw(row):
    return tuple(row[c] for c in NET_COLS)


def disk_raw(fields):
    (reads, reads_merged, rbytes, rtime, writes, writes_merged, wbytes,
     wtime, _, busy_time) = fields[:10]
    return (reads, writes, rbytes * 512, wbytes * 512, rtime, wtime,
            reads_merged, writes_merged, busy_time)


class WrapModel:
    """Sequential reference model of the statement of C10 (one function)."""

    def __init__(self):
        self.last = None
        self.off = {}

    def clear(self):
        self.last = None
        self.off = {}

    def call(self, raw):
        """raw: {dev: tuple}; returns (result dict, tags)"""
        tags = set()
        if self.last is None:
            self.last = dict(raw)
            self.off = {}
            return dict(raw), {"first"}
        out = {}
        for dev in list(self.off):
            if dev not in raw:
                del self.off[dev]          # device went away: forget
                tags.add("device_gone")
        for dev, vals in raw.items():
            if dev not in self.last:
                self.off.pop(dev, None)
                out[dev] = tuple(vals)
                tags.add("device_new_or_back")
                continue
            old = self.last[dev]
            offs = self.off.setdefault(dev, [0] * len(vals))
            for i, v in enumerate(vals):
                if v < old[i]:
                    offs[i] += old[i]
                    tags.add("wrap")
                    if offs[i] != old[i]:
                        tags.add("repeated_wrap")
            out[dev] = tuple(v + offs[i] for i, v in enumerate(vals))
        self.last = dict(raw)
        return out, tags


class Counters(EngineBase):
    name = "counters"
    SHRINK_LISTS = [("ops",), ("timed",)]

    def boot_config(self, rng):
        b = EngineBase.boot_config(self, rng)
        # import-time CPU sample (psutil reads /proc/stat while imported)
        ticks = {}
        for c in b["cpu_ids"]:
            ticks[str(c)] = [rng.randrange(0, 5000) for _ in range(10)]
        b["cpu_ticks"] = ticks
        if rng.random() < 0.3:
            # a CPU went offline earlier: its accumulated time stays in the
            # "cpu" total line only
            b["cpu_offline"] = [rng.randrange(0, 5000) for _ in range(10)]
        if rng.random() < 0.1:
            # /proc/stat cannot be read while psutil is imported: no
            # import-time sample, the field layout is learnt later
            b["import_deny"] = {"/proc/stat": 13}
        return b

    # ==================================================================
    # C10
    def gen_plan_C10(self, rng, tier):
        width = rng.choice([32, 64, 64])
        top = 2 ** width
        ndev = rng.randrange(1, 5)
        netnames = rng.sample(["lo", "eth0", "wlan0", "br-1", "veth:1",
                               "docker0"], ndev)
        disknames = rng.sample(["sda", "sda1", "nvme0n1", "nvme0n1p1",
                                "loop0", "dm-0"], rng.randrange(1, 5))
        pernic = rng.random() < 0.7
        perdisk = rng.random() < 0.7
        sys_block = [d for d in disknames if d in ("sda", "nvme0n1", "loop0",
                                                   "dm-0")]
        net = {n: [rng.randrange(0, 1000) for _ in range(16)]
               for n in netnames}
        disk = {d: [rng.randrange(0, 1000) for _ in range(11)]
                for d in disknames}
        present_n = set(netnames)
        present_d = set(disknames)
        ops = []
        nsteps = rng.randrange(4, 25 if tier == "quick" else 45)
        # interface churn (container host): short-lived veth pairs come and
        # go, far more names over time than at any one moment
        churn = rng.random() < 0.05
        if churn:
            nsteps = max(nsteps, 16)
        nforks = 0
        wrap_rate = rng.choice([0.02, 0.1, 0.3])
        gone_rate = rng.choice([0.0, 0.05, 0.15])
        allgone_rate = rng.choice([0.0, 0.0, 0.08])
        reset_rate = rng.choice([0.0, 0.0, 0.05, 0.15])
        reorder_rate = rng.choice([0.0, 0.0, 0.2, 0.5])
        if churn:
            # the long-lived interfaces keep wrapping meanwhile and stay
            wrap_rate, gone_rate, allgone_rate = 0.3, 0.0, 0.0
        for i in range(nsteps):
            for table, present, names in ((net, present_n, netnames),
                                          (disk, present_d, disknames)):
                for name in names:
                    row = table[name]
                    for j in range(len(row)):
                        r = rng.random()
                        if r < wrap_rate / 4:
                            # wrap: counter restarts below its old value
                            row[j] = rng.choice(
                                [0, rng.randrange(0, max(1, row[j] or 1)),
                                 (row[j] + rng.randrange(1, 1000)) % top
                                 if row[j] > top - 2000 else 0])
                        elif r < 0.6:
                            row[j] = row[j] + rng.randrange(0, 5000)
                            if row[j] >= top:
                                row[j] -= top
                        elif r < 0.62:
                            row[j] = top - rng.randrange(1, 1500)
                    if rng.random() < reset_rate:
                        # driver reset / interface re-created under the same
                        # name between two reads: every counter back to 0
                        for j in range(len(row)):
                            row[j] = 0
                    if rng.random() < gone_rate:
                        if name in present:
                            present.discard(name)
                        else:
                            present.add(name)
                            if rng.random() < 0.5:
                                table[name] = [rng.randrange(0, 300)
                                               for _ in row]
                if rng.random() < allgone_rate:
                    if present:
                        present.clear()
                    else:
                        present.update(names)
            if rng.random() < reorder_rate:
                # the kernel lists the same devices in another order (a NIC
                # re-registered, a disk re-probed)
                rng.shuffle(netnames)
                rng.shuffle(disknames)
            ops.append({"op": "ev", "ev": {
                "ev": "net_set",
                "table": [[n, list(net[n])] for n in netnames
                          if n in present_n] + ([
                              ["veth%03d" % ((i * 20 + q) % 900),
                               [q + 1] * 16] for q in range(120)]
                              if churn else [])}})
            if rng.random() < 0.02:
                # the program fork()s and goes on in the child
                nforks += 1
                ops.append({"op": "ev", "ev": {"ev": "fork_self",
                                               "pid": 1000 + nforks}})
            ops.append({"op": "ev", "ev": {
                "ev": "disk_set",
                "table": [{"major": 8, "minor": k_, "name": d,
                           "fields": list(disk[d])}
                          for k_, d in enumerate(disknames)
                          if d in present_d],
                "sys_block": sys_block}})
            for _ in range(rng.choice([1, 1, 2])):
                r = rng.random()
                nowrap = rng.random() < 0.8
                if r < 0.45:
                    ops.append({"op": "net", "nowrap": nowrap})
                elif r < 0.9:
                    ops.append({"op": "disk", "nowrap": nowrap})
                elif r < 0.95:
                    ops.append({"op": "clear", "which": "net"})
                else:
                    ops.append({"op": "clear", "which": "disk"})
                if r < 0.9 and rng.random() < 0.08:
                    # this one call cannot read the kernel table (EMFILE,
                    # EIO, ENOMEM): it fails, the history must survive
                    ops[-1]["fail"] = rng.choice([24, 5, 12])
        for j, op in enumerate(ops):
            op["id"] = j
        return {"prop": "C10", "world": {"net": {}, "disks": [],
                                         "sys_block": sys_block},
                "pernic": pernic, "perdisk": perdisk, "ops": ops,
                "timed": []}

    def exec_C10(self, W, plan):
        psutil = W.psutil
        k = self.make_kernel(W.boot, plan["world"])
        self.install(k)
        viol, keys, probes, sample = [], set(), {}, []
        models = {"net": WrapModel(), "disk": WrapModel()}
        mono_prev = {"net": {}, "disk": {}}
        hist = {"net": [], "disk": []}
        pernic, perdisk = plan["pernic"], plan["perdisk"]

        def V(clause, tags, api, msg):
            viol.append({"clause": clause, "tags": sorted(set(tags)),
                         "api": api, "msg": msg})

        for idx, op in enumerate(plan["ops"]):
            kind = op["op"]
            if kind == "ev":
                k.apply_event(op["ev"])
                continue
            k.begin_op(idx)
            if op.get("fail"):
                k.deny = {"/proc/net/dev": op["fail"],
                          "/proc/diskstats": op["fail"]}
            try:
                if kind == "net":
                    out = ("value", psutil.net_io_counters(
                        pernic=pernic, nowrap=op["nowrap"]))
                elif kind == "disk":
                    out = ("value", psutil.disk_io_counters(
                        perdisk=perdisk, nowrap=op["nowrap"]))
                else:
                    fn = psutil.net_io_counters if op["which"] == "net" \
                        else psutil.disk_io_counters
                    out = ("value", fn.cache_clear())
            except BaseException as e:  # noqa: BLE001
                if is_harness_exc(e):
                    raise
                out = ("exc", e)
            k.end_op()
            k.deny = {}
            if op.get("fail"):
                if out[0] == "exc" and isinstance(out[1], OSError) and \
                        out[1].errno == op["fail"]:
                    probes["failed_read_call"] = probes.get(
                        "failed_read_call", 0) + 1
                    hist[kind].append("failed")
                    continue
                V("C10.exception", ["failed_read", "swallowed" if out[0] ==
                                    "value" else type(out[1]).__name__],
                  "net_io_counters" if kind == "net" else "disk_io_counters",
                  "the kernel table could not be read (errno %d) but the "
                  "call %s" % (op["fail"], "returned %r" % (out[1],)
                               if out[0] == "value" else
                               "raised %r" % (out[1],)))
                continue
            if kind == "clear":
                models[op["which"]].clear()
                mono_prev[op["which"]] = {}
                hist[op["which"]] = ["clear"]
                if out[0] == "exc":
                    V("C10.exception", [type(out[1]).__name__], "cache_clear",
                      "cache_clear raised %r" % (out[1],))
                continue
            api = "net_io_counters" if kind == "net" else "disk_io_counters"
            per = pernic if kind == "net" else perdisk
            if kind == "net":
                raw = {n: net_raw(r) for n, r in k.net.items()}
                nt_fields = NET_FIELDS
            else:
                raw = {}
                for d in k.disks:
                    if not per and d["name"].replace("/", "!") not in \
                            k.sys_block:
                        continue
                    raw[d["name"]] = disk_raw(d["fields"])
                nt_fields = DISK_FIELDS
            if out[0] == "exc":
                V("C10.exception", [type(out[1]).__name__], api,
                  "%s raised %r" % (api, out[1]))
                continue
            got = out[1]
            model = models[kind]
            tags = set()
            if not raw:
                # nothing listed: documented None / {}; a device that is
                # absent starts afresh when it comes back
                want = {} if per else None
                if model.last is not None and op["nowrap"]:
                    model.call({})
                    tags.add("all_gone")
                if got != want:
                    V("C10.empty", ["all_gone"], api, "%s -> %r with no "
                      "device listed, expected %r" % (api, got, want))
                if model.last is not None and op["nowrap"]:
                    hist[kind].append("empty")
                mono_prev[kind] = {}
                continue
            if op["nowrap"]:
                had_empty = "empty" in hist[kind][-1:] and \
                    model.last is not None
                exp, tags = model.call(raw)
                if "empty" in hist[kind]:
                    # sticky until cache_clear(): an empty snapshot was seen
                    # while a history existed
                    tags.add("after_all_gone")
                if hist[kind] and hist[kind][-1] == "clear":
                    tags.add("after_clear")
            else:
                exp = dict(raw)
                tags = {"nowrap_off"}
            hist[kind].append("on" if op["nowrap"] else "off")
            # compare
            if per:
                ok = isinstance(got, dict) and set(got) == set(exp)
                gotd = {d: tuple(v) for d, v in got.items()} if ok else None
            else:
                ok = got is not None and len(got) == len(nt_fields)
                gotd = None
                if ok:
                    tot = tuple(sum(v[i] for v in exp.values())
                                for i in range(len(nt_fields)))
                    gotd = {"*": tuple(got)}
                    exp = {"*": tot}
            if not ok:
                V("C10.value", list(tags) + ["shape"], api,
                  "%s -> %r, expected devices %r" % (api, got, sorted(exp)))
                continue
            bad = [(d, i) for d in exp for i in range(len(nt_fields))
                   if gotd[d][i] != exp[d][i]]
            if bad:
                d, i = bad[0]
                clause = "C10.raw_when_off" if not op["nowrap"] else \
                    "C10.value"
                V(clause, list(tags), api,
                  "%s[%s].%s = %r, reference %r (raw %r)" % (
                      api, d, nt_fields[i], gotd[d][i], exp[d][i],
                      raw[d][i] if d in raw else None))
            # monotone while continuously present (nowrap=True calls)
            if op["nowrap"]:
                prev = mono_prev[kind]
                for d, vals in gotd.items():
                    if d in prev:
                        for i, v in enumerate(vals):
                            if v < prev[d][i]:
                                V("C10.monotone", list(tags), api,
                                  "%s[%s].%s decreased %r -> %r" % (
                                      api, d, nt_fields[i], prev[d][i], v))
                                break
                # per-device continuity: in the totals form a device leaving
                # legitimately lowers the sum, so only compare per device
                mono_prev[kind] = dict(gotd) if per else {}
            for t in tags:
                probes[t] = probes.get(t, 0) + 1
            keys.add("C10|%s|%s|%s|%s" % (kind, per, op["nowrap"],
                                          ",".join(sorted(tags))))
            if len(sample) < 6 and ("wrap" in tags or "device_gone" in tags):
                sample.append("%s(nowrap=%s) tags=%s -> %s" % (
                    api, op["nowrap"], sorted(tags), str(got)[:100]))
        return {"violations": viol, "digest": k.digest.hexdigest(),
                "stats": dict(k.stats), "probes": probes,
                "keys": sorted(keys), "sim_time": 0.0, "sample": sample}

    # ==================================================================
    # C07
    def gen_plan_C07(self, rng, tier, boot):
        cpu_ids = boot["cpu_ids"]
        rows = {str(c): list(boot["cpu_ticks"][str(c)]) for c in cpu_ids}
        ops = []
        timed = []
        pids = [5, 6]
        t = 0.0
        nops = rng.randrange(4, 22 if tier == "quick" else 40)
        back_rate = rng.choice([0.0, 0.02, 0.1])
        small = rng.random() < 0.5       # sub-second totals
        for i in range(nops):
            # advance the kernel's counters
            def bump():
                # a quiet period now and then (few counters move), and now
                # and then a big step back (VM resume, counter re-sync): the
                # clamps to [0, 100] are only reachable that way
                act = rng.choice([0.7, 0.7, 0.7, 0.3])
                for c in cpu_ids:
                    row = rows[str(c)]
                    for j in range(10):
                        r = rng.random()
                        if r < back_rate:
                            row[j] = max(0, row[j] - rng.choice(
                                [rng.randrange(1, 50), rng.randrange(1, 50),
                                 rng.randrange(100, 3000)]))
                        elif r < act:
                            inc = rng.randrange(0, 8 if small else 400)
                            row[j] += inc
                            # the kernel accounts guest time in user/nice too
                            if j == 8:
                                row[0] += inc
                            elif j == 9:
                                row[1] += inc
                return {"ev": "cpu_set", "rows": {c: list(rows[c])
                                                  for c in rows}}
            r = rng.random()
            if r < 0.75:
                ops.append({"op": "ev", "ev": bump()})
            if rng.random() < 0.5:
                ops.append({"op": "ev", "ev": {"ev": "advance", "dt":
                                               rng.choice([0.0, 0.001, 0.1,
                                                           1.0, 2.5])}})
            if rng.random() < 0.04:
                ops.append({"op": "ev", "ev": {
                    "ev": "ncpu_online", "n": rng.choice([1, 2, 4, 8, 16])}})
            if rng.random() < 0.4:
                ops.append({"op": "ev", "ev": {
                    "ev": "proc_tick", "pid": rng.choice(pids),
                    "utime": rng.randrange(0, 300),
                    "stime": rng.randrange(0, 300)}})
                if rng.random() < 0.4:
                    # it reaped a busy child / waited for the disk
                    ops[-1]["ev"].update(
                        cutime=rng.randrange(0, 400),
                        cstime=rng.randrange(0, 400),
                        blkio=rng.randrange(0, 50))
            interval = rng.choice([None, None, 0, 0.0, 0.001, 0.1, 1, 5, -1,
                                   None, 0.25])
            r = rng.random()
            if r < 0.15:
                op = {"op": "cpu_times", "percpu": rng.random() < 0.5}
            elif r < 0.45:
                op = {"op": "cpu_percent", "interval": interval,
                      "percpu": rng.random() < 0.5}
            elif r < 0.8:
                op = {"op": "cpu_times_percent", "interval": interval,
                      "percpu": rng.random() < 0.5}
            else:
                op = {"op": "proc_cpu_percent", "interval": interval,
                      "h": rng.randrange(2)}
                if rng.random() < 0.2 and not (interval and interval < 0):
                    # this one call cannot read the process record (EACCES):
                    # it must fail without disturbing the object's previous
                    # sample
                    op["deny"] = True
                elif interval is None and rng.random() < 0.25:
                    # the same figure asked through as_dict(); a name given
                    # twice is still one key (and one sample)
                    op["via_as_dict"] = rng.choice([
                        ["cpu_percent"], ["cpu_percent", "cpu_percent"],
                        ["name", "cpu_percent", "name", "cpu_percent"],
                        ["cpu_percent", "pid"]])
            if rng.random() < 0.15 and op["op"] != "cpu_times":
                # the call is made from another (serialised) thread: the
                # system-wide functions measure per calling thread, a
                # Process object has ONE history whoever calls
                op["thread"] = rng.choice([1, 2])
            if op["op"] in ("cpu_percent", "cpu_times_percent") and \
                    not (interval and interval > 0) and \
                    not (interval is not None and interval < 0) and \
                    rng.random() < 0.06:
                # this one call cannot read /proc/stat (EMFILE, ENOENT...):
                # it fails; the thread's previous sample must survive
                op["fail"] = rng.choice([24, 2, 5])
            if interval and interval > 0:
                # ticks that land while the call sleeps
                nsub = rng.randrange(0, 3)
                op["during"] = []
                for _ in range(nsub):
                    op["during"].append({"frac": rng.random(), "ev": bump()})
                    if rng.random() < 0.5:
                        op["during"].append({
                            "frac": rng.random(),
                            "ev": {"ev": "proc_tick", "pid": rng.choice(pids),
                                   "utime": rng.randrange(0, 200),
                                   "stime": rng.randrange(0, 200)}})
                if op["op"] in ("cpu_percent", "cpu_times_percent") and \
                        rng.random() < 0.2:
                    # a signal handler interrupts the sleep and takes a
                    # (non-blocking) measurement of its own on this thread
                    same = rng.random() < 0.7
                    op["during"].append({
                        "frac": rng.choice([0.3, 0.5, 0.8]),
                        "ev": {"ev": "hook", "name": "reenter",
                               "call": op["op"] if same else rng.choice(
                                   ["cpu_percent", "cpu_times_percent"]),
                               "percpu": op["percpu"] if same else
                               rng.random() < 0.5}})
            ops.append(op)
        for j, op in enumerate(ops):
            op["id"] = j
        procs = [{"pid": p, "ppid": 1, "comm": "w%d" % p,
                  "utime": rng.randrange(0, 1000),
                  "stime": rng.randrange(0, 1000)} for p in pids]
        return {"prop": "C07", "world": {
            "procs": procs, "mono0": 60000.0 + rng.randrange(0, 100),
            # sleep() may return late (loaded machine, stopped process)
            "sleep_jitter": rng.choice([0.0, 0.0, 0.003, 0.05, 1.5])},
            "ops": ops, "timed": []}

    @staticmethod
    def _deltas(t1, t2, nf):
        return [max(0, t2[i] - t1[i]) for i in range(nf)]

    def exec_C07(self, W, plan):
        psutil = W.psutil
        boot = W.boot
        k = self.make_kernel(boot, plan["world"])
        self.install(k)
        nf = boot["cpu_fields"]
        fields = ["user", "nice", "system", "idle", "iowait", "irq",
                  "softirq", "steal", "guest", "guest_nice"][:nf]
        cpu_ids = list(boot["cpu_ids"])
        viol, keys, probes, sample = [], set(), {}, []

        def V(clause, tags, api, msg):
            viol.append({"clause": clause, "tags": sorted(set(tags)),
                         "api": api, "msg": msg})

        def table_of(rows):
            return {c: list(rows[c]) for c in cpu_ids}

        off = boot.get("cpu_offline") or [0] * 10

        def total_row(tab):
            return [off[i] + sum(tab[c][i] for c in cpu_ids)
                    for i in range(10)]

        imp = {int(c): list(r) for c, r in boot["cpu_ticks"].items()}
        # psutil's four per-thread sample stores; thread 0 imported psutil
        last = {("cpu_percent", False): {0: table_of(imp)},
                ("cpu_percent", True): {0: table_of(imp)},
                ("cpu_times_percent", False): {0: table_of(imp)},
                ("cpu_times_percent", True): {0: table_of(imp)}}
        if boot.get("import_deny"):
            # /proc/stat was unreadable during the import: no sample yet
            last = {key_: {} for key_ in last}
            probes["imported_without_cpu_sample"] = 1
        handles = {}
        k.begin_op(0)
        for i, p in enumerate(plan["world"]["procs"]):
            handles[i] = psutil.Process(p["pid"])
        k.end_op()
        proc_last = {}
        ncpu = k.ncpu_online

        def reenter(ev):
            # runs inside time.sleep() of the blocking call, same thread
            a = len(k.statreads)
            try:
                getattr(psutil, ev["call"])(interval=None,
                                            percpu=ev["percpu"])
            except BaseException as e:  # noqa: BLE001
                if is_harness_exc(e):
                    raise
                return
            mine = k.statreads[a:]
            if mine:
                last[(ev["call"], ev["percpu"])][k.cur_thread] = mine[-1][2]
            probes["reentrant_call_during_sleep"] = probes.get(
                "reentrant_call_during_sleep", 0) + 1

        k.hooks = {"reenter": reenter}

        def pct_expect(t1, t2):
            d = self._deltas(t1, t2, nf)
            tot = sum(d)
            if nf >= 9:
                tot -= d[8]
            if nf >= 10:
                tot -= d[9]
            busy = tot - d[3] - d[4]
            return d, tot, busy

        def near(a, b):
            return abs(a - b) <= 0.05 + 1e-9 * max(1.0, abs(b))

        ncpu_seen = {}

        for idx, op in enumerate(plan["ops"], start=1):
            kind = op["op"]
            if kind == "ev":
                k.apply_event(op["ev"])
                continue
            interval = op.get("interval")
            blocking = interval is not None and interval > 0
            if blocking:
                for d in op.get("during") or []:
                    k.schedule_at_time(k.mono + interval * d["frac"], d["ev"])
            sr0 = len(k.statreads)
            pr0 = len(k.procstat_reads)
            acc0 = len(k.acclog)
            t_start = k.mono
            pt_start = None
            th = op.get("thread", 0)
            if th not in k.ctxs:
                from ..kernel import Ctx
                k.ctxs[th] = Ctx(th)
            k.cur_thread = th
            k.begin_op(idx)
            if op.get("fail"):
                k.deny = {"/proc/stat": op["fail"]}
            try:
                if kind == "cpu_times":
                    out = ("value", psutil.cpu_times(percpu=op["percpu"]))
                elif kind == "cpu_percent":
                    out = ("value", psutil.cpu_percent(interval=interval,
                                                       percpu=op["percpu"]))
                elif kind == "cpu_times_percent":
                    out = ("value", psutil.cpu_times_percent(
                        interval=interval, percpu=op["percpu"]))
                else:
                    h = handles[op["h"] % len(handles)]
                    if op.get("deny"):
                        k.deny = {"/proc/%d/stat" % h.pid: 13}
                    try:
                        if op.get("via_as_dict"):
                            out = ("value", h.as_dict(
                                attrs=op["via_as_dict"])["cpu_percent"])
                        else:
                            out = ("value", h.cpu_percent(interval=interval))
                    finally:
                        k.deny = {}
            except BaseException as e:  # noqa: BLE001
                if is_harness_exc(e):
                    raise
                out = ("exc", e)
            k.end_op()
            k.cur_thread = 0
            if op.get("fail"):
                k.deny = {}
                if out[0] == "exc" and isinstance(out[1], OSError) and \
                        out[1].errno == op["fail"]:
                    probes["stat_read_failed"] = probes.get(
                        "stat_read_failed", 0) + 1
                else:
                    V("C07.exception", ["failed_read", "swallowed" if out[0]
                                        == "value" else type(out[1]).__name__],
                      kind, "/proc/stat could not be read (errno %d) but %s "
                      "%s" % (op["fail"], kind, "returned %r" % (out[1],)
                              if out[0] == "value" else "raised %r" %
                              (out[1],)))
                continue
            if kind == "proc_cpu_percent" and op.get("deny"):
                probes["proc_sample_failed"] = probes.get(
                    "proc_sample_failed", 0) + 1
                if not (out[0] == "exc" and exc_class(psutil, out[1]) == "AD"):
                    V("C07.process_percent", ["denied_call"], kind,
                      "Process.cpu_percent() with /proc/<pid>/stat refused "
                      "-> %r, expected AccessDenied" % (out[1],))
                continue
            reads = k.statreads[sr0:]
            acc = [a for a in k.acclog[acc0:] if a[2] >= 0]
            api = kind
            tags = []
            if interval is not None and interval < 0:
                if not (out[0] == "exc" and isinstance(out[1], ValueError)):
                    V("C07.negative_interval", [], api, "%s(interval=%r) -> "
                      "%r" % (api, interval, out[1]))
                elif acc and kind != "cpu_times":
                    V("C07.negative_interval", ["access"], api,
                      "%s(interval=%r) touched the OS before refusing" % (
                          api, interval))
                continue
            if out[0] == "exc":
                V("C07.exception", [type(out[1]).__name__], api,
                  "%s raised %r" % (api, out[1]))
                continue
            val = out[1]
            if kind == "cpu_times":
                tab = reads[-1][2] if reads else None
                if tab is None:
                    V("C07.times", ["noread"], api, "no /proc/stat read")
                    continue
                if op["percpu"]:
                    ok = isinstance(val, list) and len(val) == len(cpu_ids)
                    exp = [[Fraction(tab[c][i], CLK_TCK) for i in range(nf)]
                           for c in cpu_ids]
                    got = [list(x) for x in val] if ok else None
                else:
                    ok = len(val) == nf
                    tr = total_row(tab)
                    exp = [[Fraction(tr[i], CLK_TCK) for i in range(nf)]]
                    got = [list(val)] if ok else None
                if not ok or any(
                        abs(Fraction(g) - e) > Fraction(1, 10 ** 9)
                        for gr, er in zip(got, exp) for g, e in zip(gr, er)):
                    V("C07.times", [], api, "cpu_times(percpu=%s) -> %r, "
                      "kernel ticks %r" % (op["percpu"], val, tab))
                elif not op["percpu"] and list(val._fields) != fields:
                    V("C07.times", ["fields"], api, "fields %r" %
                      (val._fields,))
                keys.add("C07|cpu_times|%s" % op["percpu"])
                continue
            if kind == "proc_cpu_percent":
                h = handles[op["h"] % len(handles)]
                prs = [r for r in k.procstat_reads[pr0:] if r[2] == h.pid]
                exp = None
                n_prev = ncpu_seen.get(id(h))
                ncpu_seen[id(h)] = k.ncpu_online
                if n_prev is not None and n_prev != k.ncpu_online:
                    tags.append("ncpu_changed_since_previous_call")
                if blocking:
                    if len(prs) >= 2:
                        a, b = prs[0], prs[-1]
                        dt = b[4] - a[4]
                        dp = Fraction(b[3] - a[3], CLK_TCK)
                        exp = float(100 * dp / Fraction(dt)) if dt > 0 \
                            else 0.0
                        proc_last[id(h)] = (b[4], b[3])
                elif prs:
                    cur = (prs[-1][4], prs[-1][3])
                    prev = proc_last.get(id(h))
                    proc_last[id(h)] = cur
                    if prev is None:
                        exp = 0.0
                        tags.append("first_call")
                    else:
                        dt = cur[0] - prev[0]
                        dp = Fraction(cur[1] - prev[1], CLK_TCK)
                        exp = float(100 * dp / Fraction(dt)) if dt > 0 \
                            else 0.0
                        if dt == 0:
                            tags.append("zero_dt")
                if exp is not None and (not isinstance(val, float) or
                                        not near(val, exp)):
                    V("C07.process_percent", tags + (
                        ["blocking"] if blocking else ["nonblocking"]), api,
                      "Process.cpu_percent(%r) -> %r, expected %.4f" % (
                          interval, val, exp))
                keys.add("C07|proc|%s|%s" % (blocking, ",".join(tags)))
                continue
            # cpu_percent / cpu_times_percent
            store = last[(kind, op["percpu"])]
            if not reads:
                V("C07.per_thread", ["noread"], api, "no /proc/stat read")
                continue
            t2 = reads[-1][2]
            if blocking:
                t1 = reads[0][2]
                tags.append("blocking")
            else:
                t1 = store.get(th)
                tags.append("nonblocking")
                if t1 is None:
                    t1 = reads[0][2]
            store[th] = t2
            rows = [(t1[c], t2[c]) for c in cpu_ids] if op["percpu"] else \
                [(total_row(t1), total_row(t2))]
            vals = val if op["percpu"] else [val]
            if op["percpu"] and (not isinstance(val, list) or
                                 len(val) != len(cpu_ids)):
                V("C07.percent", tags + ["shape"], api, "%r" % (val,))
                continue
            for (a, b), v in zip(rows, vals):
                d, tot, busy = pct_expect(a, b)
                ctags = list(tags)
                if any(b[i] < a[i] for i in range(nf)):
                    ctags.append("backwards")
                if 0 < tot < CLK_TCK:
                    ctags.append("subsecond_total")
                if tot == 0:
                    ctags.append("zero_total")
                if (nf >= 9 and d[8] > d[0]) or (nf >= 10 and d[9] > d[1]):
                    # inconsistent kernel counters (only possible together
                    # with a counter going backwards): range-checked only
                    ctags.append("guest_gt_user")
                if kind == "cpu_percent":
                    exp = float(Fraction(100 * busy, tot)) if tot > 0 else 0.0
                    inrange = isinstance(v, float) and 0.0 <= v <= 100.0
                    if not inrange and "guest_gt_user" not in ctags:
                        V("C07.percent", ctags + ["range"], api,
                          "cpu_percent -> %r outside [0, 100]" % (v,))
                    elif tot <= 0:
                        if v != 0.0 and "guest_gt_user" not in ctags:
                            V("C07.percent", ctags, api, "cpu_percent -> %r "
                              "with no elapsed CPU time" % (v,))
                    elif not near(v, exp) and "guest_gt_user" not in ctags:
                        V("C07.percent", ctags, api,
                          "cpu_percent -> %r, expected 100*%d/%d = %.3f "
                          "(samples %r -> %r)" % (v, busy, tot, exp, a[:nf],
                                                  b[:nf]))
                else:
                    if len(v) != nf or list(v._fields) != fields:
                        V("C07.percent", ctags + ["shape"], api, "%r" % (v,))
                        continue
                    bad = None
                    for i in range(nf):
                        if not (0.0 <= v[i] <= 100.0):
                            bad = "field %s = %r outside [0, 100]" % (
                                fields[i], v[i])
                        elif tot > 0:
                            e = min(100.0, float(Fraction(100 * d[i], tot)))
                            if not near(v[i], e) and \
                                    "guest_gt_user" not in ctags:
                                bad = "field %s = %r, expected 100*%d/%d = " \
                                    "%.3f" % (fields[i], v[i], d[i], tot, e)
                        elif v[i] != 0.0 and "guest_gt_user" not in ctags:
                            bad = "field %s = %r with no elapsed time" % (
                                fields[i], v[i])
                        if bad:
                            break
                    if bad:
                        V("C07.times_percent", ctags, api, bad + " (samples "
                          "%r -> %r)" % (a[:nf], b[:nf]))
                    if tot > 0 and "guest_gt_user" not in ctags:
                        s = sum(v[i] for i in range(min(nf, 8)))
                        if abs(s - 100.0) > 0.05 * min(nf, 8) + 1e-6:
                            V("C07.sums_to_100", ctags, api,
                              "non-guest fields add up to %.2f, not 100 "
                              "(total delta %d ticks; %r)" % (s, tot, v))
                keys.add("C07|%s|%s|%s" % (kind, op["percpu"],
                                           ",".join(sorted(ctags))))
                for t in ctags:
                    probes[t] = probes.get(t, 0) + 1
            if len(sample) < 5:
                sample.append("%s(interval=%r, percpu=%s) -> %s" % (
                    kind, interval, op["percpu"], str(val)[:90]))
        return {"violations": viol, "digest": k.digest.hexdigest(),
                "stats": dict(k.stats), "probes": probes,
                "keys": sorted(keys), "sim_time": k.mono - float(
                    plan["world"]["mono0"]), "sample": sample}

    # ==================================================================
    def execute(self, W, plan):
        if plan["prop"] == "C10":
            return self.exec_C10(W, plan)
        return self.exec_C07(W, plan)

    def run_unit(self, W, unit_seed, tier):
        prop = W.prop
        rng = self.rng("cnt", prop, unit_seed)
        plan = self.gen_plan_C10(rng, tier) if prop == "C10" else \
            self.gen_plan_C07(rng, tier, W.boot)
        r = W.execute_forked(plan)
        u = {"evals": 1, "keys": set(), "stats": {}, "violations": [],
             "harness_errors": [], "timeouts": 0, "digest_checks": 0}
        if not isinstance(r, dict) or r.get("timeout"):
            u["timeouts"] = 1
            u["harness_errors"].append("wall-clock timeout")
            return u
        if "harness_error" in r:
            u["harness_errors"].append(r["harness_error"] + " " +
                                       r.get("tb", "")[-900:])
            return u
        u["keys"].update(r.get("keys") or ())
        for kk, vv in (r.get("stats") or {}).items():
            u["stats"][kk] = u["stats"].get(kk, 0) + vv
        for kk, vv in (r.get("probes") or {}).items():
            u["stats"][kk] = u["stats"].get(kk, 0) + vv
        u["sim_time"] = r.get("sim_time", 0.0)
        if (unit_seed % 50) == 0:
            r2 = W.execute_forked(plan)
            u["digest_checks"] = 1
            if r2.get("digest") != r.get("digest"):
                u["harness_errors"].append("digest mismatch on re-execution")
        for v in r.get("violations") or []:
            u["violations"].append({"sig": list(sig_of(v)), "msg": v["msg"],
                                    "plan": plan})
        if r.get("sample"):
            u["sample"] = r["sample"]
        return u


Counters.RULE = (
    "C10: each run = one seeded history of raw /proc/net/dev + "
    "/proc/diskstats snapshots (32/64-bit wraps, resets, devices leaving / "
    "returning / all gone, new devices) with net_io_counters/disk_io_counters"
    "/cache_clear calls in any order and alternating nowrap; distinct+"
    "non-trivial = distinct (function, per-device form, nowrap, cause tags "
    "{wrap, repeated_wrap, device_gone, device_new_or_back, after_all_gone, "
    "after_clear}) cells. C07: each run = one seeded history of per-CPU tick "
    "tables over virtual time with blocking/non-blocking calls; distinct = "
    "(api, percpu, cause tags {backwards, subsecond_total, zero_total, "
    "guest_gt_user, blocking}) cells")
Counters.ASSUMPTIONS = [
    "perdisk/pernic are fixed per run (alternating them feeds different key "
    "sets into one cache, outside the statement's quantifier)",
    "C07: rows where the guest delta exceeds the user delta are executed but "
    "only range-checked for cpu_times_percent (the kernel never publishes "
    "guest > user)",
    "floating point: results accepted within the documented rounding "
    "(0.05 + 1e-9 relative)",
]
Counters.COMPONENTS = {
    "real": ["psutil/__init__.py (cpu_*, net_io_counters, disk_io_counters)",
             "psutil/_common.py (_WrapNumbers)", "psutil/_pslinux.py "
             "(/proc/stat, /proc/net/dev, /proc/diskstats parsers)"],
    "stub": ["/proc/stat, /proc/net/dev, /proc/diskstats, /sys/block "
             "(SimKernel)", "time.sleep / time.monotonic (virtual clock)"],
}
Counters.PROBES_BY_PROP = {
    "C10": ["wrap", "repeated_wrap", "device_gone", "device_new_or_back",
            "after_all_gone", "after_clear", "nowrap_off"],
    "C07": ["backwards", "subsecond_total", "zero_total", "blocking",
            "nonblocking", "proc_sample_failed"],
}

ENGINE = Counters()
