"""faultpoint engine -- C03: a process vanishing / turning zombie / being
denied at OS access k of a Process method yields only psutil errors.

Single faults are *enumerated*: every pid-related access index of every
subject x {VANISH, ZOMBIE, EACCES, EPERM}, in every generated world.
Two-fault sequences (DENY at i, VANISH at j>i) are enumerated when the call
performs <= 12 accesses and sampled otherwise.  DESIGN 9/C03.
"""

import re

from .base import EngineBase, exc_class, is_harness_exc
from .. import gen
from ..runner import H, sig_of

KINDS = ("VANISH", "ZOMBIE", "EACCES", "EPERM", "HALFGONE")
# (+ THREAD_EXIT on accesses to task/<tid>/ records, + ZOMBIE+REAP)
ERRNO = {"EACCES": 13, "EPERM": 1}

TREE_WALKERS = ("children", "children_r", "parent", "parents",
                "process_iter", "process_iter_attrs")

GETTERS = [
    "name", "exe", "cmdline", "status", "username", "create_time", "cwd",
    "nice", "uids", "gids", "terminal", "num_fds", "io_counters", "ionice",
    "rlimit", "cpu_affinity", "cpu_num", "environ", "num_ctx_switches",
    "num_threads", "threads", "cpu_times", "memory_info", "memory_full_info",
    "memory_percent", "memory_percent_uss", "memory_maps", "memory_maps_ng",
    "open_files", "net_connections", "net_connections_all", "ppid",
    "cpu_percent",
]
UTILS = ["as_dict", "as_dict_some", "children", "children_r", "parent",
         "parents", "is_running", "process_iter", "process_iter_attrs",
         "str"]
SUBJECTS = GETTERS + UTILS

MEMOISED = ("create_time", "exe")

_AD = "<ad-value>"


def call_subject(psutil, p, name, args):
    if name == "rlimit":
        return p.rlimit(psutil.RLIMIT_NOFILE)
    if name == "memory_percent_uss":
        return p.memory_percent("uss")
    if name == "memory_maps_ng":
        return p.memory_maps(grouped=False)
    if name == "net_connections_all":
        return p.net_connections(kind="all")
    if name == "as_dict":
        return p.as_dict(ad_value=_AD)
    if name == "as_dict_some":
        return p.as_dict(attrs=list(args["attrs"]), ad_value=_AD)
    if name == "children_r":
        return p.children(recursive=True)
    if name == "process_iter":
        return list(psutil.process_iter())
    if name == "process_iter_attrs":
        return list(psutil.process_iter(attrs=list(args["attrs"]),
                                        ad_value=_AD))
    if name == "str":
        return str(p)
    return getattr(p, name)()


def _nt(v, name, n):
    return type(v).__name__ == name and isinstance(v, tuple) and len(v) == n


def shape_error(psutil, name, v, args=None):
    """None if v has the documented shape for subject `name`."""
    def all_(seq, pred):
        return all(pred(x) for x in seq)
    isnum = lambda x: isinstance(x, (int, float)) and not isinstance(x, bool)  # noqa
    isint = lambda x: isinstance(x, int) and not isinstance(x, bool)  # noqa
    ok = True
    if name in ("name", "exe", "cwd", "username", "str"):
        ok = isinstance(v, str)
    elif name == "status":
        ok = isinstance(v, str) and (v.islower() or v == "?")
    elif name == "cmdline":
        ok = isinstance(v, list) and all_(v, lambda x: isinstance(x, str))
    elif name in ("create_time", "memory_percent", "memory_percent_uss",
                  "cpu_percent"):
        ok = isinstance(v, float)
    elif name in ("nice", "num_fds", "cpu_num", "num_threads", "ppid"):
        ok = isint(v)
    elif name == "uids":
        ok = _nt(v, "puids", 3) and all_(v, isint)
    elif name == "gids":
        ok = _nt(v, "pgids", 3) and all_(v, isint)
    elif name == "terminal":
        ok = v is None or isinstance(v, str)
    elif name == "io_counters":
        ok = _nt(v, "pio", 6) and all_(v, isint)
    elif name == "ionice":
        ok = _nt(v, "pionice", 2)
    elif name == "rlimit":
        ok = isinstance(v, tuple) and len(v) == 2 and all_(v, isint)
    elif name == "cpu_affinity":
        ok = isinstance(v, list) and all_(v, isint)
    elif name == "environ":
        ok = isinstance(v, dict) and all_(
            v.items(), lambda kv: isinstance(kv[0], str) and
            isinstance(kv[1], str))
    elif name == "num_ctx_switches":
        ok = _nt(v, "pctxsw", 2) and all_(v, isint)
    elif name == "threads":
        ok = isinstance(v, list) and all_(
            v, lambda t: _nt(t, "pthread", 3) and isint(t[0]))
    elif name == "cpu_times":
        ok = _nt(v, "pcputimes", 5) and all_(v, isnum)
    elif name == "memory_info":
        ok = _nt(v, "pmem", 7) and all_(v, isint)
    elif name == "memory_full_info":
        ok = _nt(v, "pfullmem", 10) and all_(v, isint)
    elif name == "memory_maps":
        ok = isinstance(v, list) and all_(
            v, lambda t: _nt(t, "pmmap_grouped", 11))
    elif name == "memory_maps_ng":
        ok = isinstance(v, list) and all_(
            v, lambda t: _nt(t, "pmmap_ext", 13))
    elif name == "open_files":
        ok = isinstance(v, list) and all_(
            v, lambda t: _nt(t, "popenfile", 5) and isinstance(t[0], str)
            and isint(t[1]))
    elif name in ("net_connections", "net_connections_all"):
        ok = isinstance(v, list)
    elif name in ("children", "children_r", "parents"):
        ok = isinstance(v, list) and all_(
            v, lambda x: isinstance(x, psutil.Process))
    elif name == "parent":
        ok = v is None or isinstance(v, psutil.Process)
    elif name == "is_running":
        ok = isinstance(v, bool)
    elif name == "process_iter":
        ok = isinstance(v, list) and all_(
            v, lambda x: isinstance(x, psutil.Process))
    elif name == "process_iter_attrs":
        want = set(args["attrs"])
        ok = isinstance(v, list) and all_(
            v, lambda x: isinstance(x, psutil.Process) and
            isinstance(getattr(x, "info", None), dict) and
            set(x.info) == want)
        if ok:
            for x in v:
                for kk, vv in x.info.items():
                    if vv != _AD and kk != "pid":
                        e = shape_error(psutil, kk, vv)
                        if e:
                            return "info[%s]: %s" % (kk, e)
    elif name in ("as_dict", "as_dict_some"):
        want = set(args["attrs"]) if name == "as_dict_some" else \
            set(psutil._as_dict_attrnames)
        if not isinstance(v, dict) or set(v) != want:
            return "keys %r" % (sorted(set(v) ^ want)
                                if isinstance(v, dict) else type(v),)
        for kk, vv in v.items():
            if kk == "pid" or (isinstance(vv, str) and vv == _AD):
                continue
            e = shape_error(psutil, kk, vv)
            if e:
                return "as_dict[%s]: %s" % (kk, e)
    elif name == "pid":
        ok = isint(v)
    if not ok:
        return "bad shape for %s: %r" % (name, v)
    return None


def site_of(kind, arg, pid, target):
    s = str(arg)
    if pid is not None:
        who = "<T>" if pid == target else "<O>"
        s = s.replace("/proc/%d" % pid, "/proc/" + who)
        s = s.replace("(%d," % pid, "(%s," % who)
        if s == str(pid):
            s = who
    s = re.sub(r"/(fd|fdinfo|task)/\d+", r"/\1/N", s)
    return "%s:%s" % (kind, s)


class FaultPoint(EngineBase):
    name = "faultpoint"
    SHRINK_LISTS = [("world", "procs"), ("warm",), ("faults",)]

    # ---- world -----------------------------------------------------------
    def gen_world(self, rng, boot):
        files = {}
        self_pid = 1000
        pids = rng.sample(range(2, 60), rng.randrange(4, 14))
        target = pids[0]
        procs = []
        # the target's parent: the harness process, init or another process
        parent_kind = rng.choice(["self", "other", "init"])
        others = pids[1:]
        by_pid = {}
        start = 300100
        for i, pid in enumerate(others):
            ppid = rng.choice([1, 1, self_pid] + others[:i])
            start += rng.randrange(1, 500)
            pr = gen.gen_proc(rng, pid, ppid, files, rich=rng.random() < 0.3,
                              start=start)
            if rng.random() < 0.15:
                pr["zombie"] = True
            by_pid[pid] = pr
            procs.append(pr)
        if parent_kind == "self":
            tppid = self_pid
        elif parent_kind == "init" or not others:
            tppid = 1
        else:
            tppid = rng.choice(others)
            by_pid[tppid].pop("zombie", None)
        tstart = max([by_pid[tppid]["starttime"]] if tppid in by_pid
                     else [300000]) + rng.randrange(1, 400)
        t = gen.gen_proc(rng, target, tppid, files, rich=True, start=tstart)
        t["is_child"] = (tppid == self_pid)
        procs.append(t)
        # give the target children and a grandchild (started later)
        kids = [p for p in others if p != tppid][:rng.randrange(0, 4)]
        st = tstart
        for j, kid in enumerate(kids):
            st += rng.randrange(1, 300)
            by_pid[kid]["ppid"] = target if j != 2 else kids[0]
            by_pid[kid]["starttime"] = st
        world = {
            "procs": procs, "files": files,
            "listdir_order": rng.choice(["sorted", "sorted", "reversed",
                                         "o%d" % rng.randrange(99)]),
            "root": True,
            "mono0": 50000.0 + rng.randrange(0, 1000),
        }
        return world, target

    def subjects_for(self, rng, tier):
        subs = []
        for name in SUBJECTS:
            args = {}
            if name in GETTERS and not hasattr(
                    self._psutil.Process, name.replace("_uss", "").replace(
                        "_ng", "").replace("_all", "")):
                continue
            if name in ("as_dict_some", "process_iter_attrs"):
                pool = [g for g in GETTERS if "_" not in g or g in (
                    "create_time", "num_fds", "io_counters", "cpu_affinity",
                    "cpu_num", "num_ctx_switches", "num_threads", "cpu_times",
                    "memory_info", "memory_full_info", "memory_percent",
                    "memory_maps", "open_files", "net_connections",
                    "cpu_percent")]
                pool = [g for g in pool if g not in ("rlimit",) and
                        hasattr(self._psutil.Process, g)] + ["pid"]
                args["attrs"] = sorted(rng.sample(pool, rng.randrange(1, 6)))
            subs.append((name, args))
        return subs

    # ---- one replayable execution ---------------------------------------
    def execute(self, W, plan):
        psutil = W.psutil
        k = self.make_kernel(W.boot, plan["world"])
        k.keep_snaps = True
        self.install(k)
        k.snaps.append((k.version, k.snapshot()))
        target = plan["target"]
        name = plan["subject"]
        args = plan.get("args") or {}
        faults = plan.get("faults") or []
        viol = []
        res = {"violations": viol, "subject": name}

        # op 0: create the handle (fault free), warm caches if asked
        k.begin_op(0)
        try:
            p = psutil.Process(target)
            for w in plan.get("warm") or []:
                try:
                    call_subject(psutil, p, w, {})
                except psutil.Error:
                    pass
        except psutil.Error as e:
            res["setup_failed"] = repr(e)
            k.end_op()
            res["digest"] = k.digest.hexdigest()
            return res
        k.end_op()
        warm_exe_ok = "exe" in (plan.get("warm") or [])

        # op 1: the subject, with faults
        for f in faults:
            kind = f["kind"]
            if kind == "VANISH":
                k.schedule_at_access(0, 1, f["k"], {"ev": "vanish",
                                                    "pid": f["pid"]})
            elif kind == "ZOMBIE":
                k.schedule_at_access(0, 1, f["k"], {"ev": "zombify",
                                                    "pid": f["pid"]})
            elif kind == "HALFGONE":
                k.schedule_at_access(0, 1, f["k"], {"ev": "halfgone",
                                                    "pid": f["pid"]})
            elif kind == "THREAD_EXIT":
                # one *thread* of the (live) process ends just before this
                # access to its task/<tid>/ record
                k.schedule_at_access(0, 1, f["k"], {
                    "ev": "thread_exit", "pid": f["pid"], "tid": f["tid"]})
            elif kind == "ENOENT_QUIRK":
                k.schedule_fault(0, 1, f["k"], {"kind": kind, "errno": 2})
            else:
                k.schedule_fault(0, 1, f["k"], {"kind": kind,
                                                "errno": ERRNO[kind]})
        acc0 = len(k.acclog)
        snap0 = len(k.snaps)
        k.begin_op(1)
        try:
            out = ("value", call_subject(psutil, p, name, args))
        except BaseException as e:  # noqa: BLE001
            if is_harness_exc(e):
                raise
            out = ("exc", e)
        k.end_op()
        acc = [a for a in k.acclog[acc0:] if a[2] >= 0]
        res["acc"] = [[a[2], a[3], str(a[4]), a[5], a[8]] for a in acc]
        nacc = len(acc)
        fired = [f for f in faults if f["k"] < nacc]
        res["fired"] = len(fired) == len(faults)
        snaps = [s for _, s in k.snaps[max(0, snap0 - 1):]]
        ever_pids, ever_zombie, ever_tids, ever_fds = set(), set(), set(), set()
        for s in snaps:
            for pid, (inc, z, tids, fds, _pp, _st) in s.items():
                ever_pids.add(pid)
                if z:
                    ever_zombie.add(pid)
                if pid == target:
                    ever_tids |= tids
                    ever_fds |= fds
        final = snaps[-1]
        walker = name in TREE_WALKERS
        fpids = {f["pid"] for f in faults}
        denied = any(f["kind"] in ERRNO for f in fired)
        tags_f = sorted({f["kind"] for f in fired}) or ["NOFAULT"]
        for f in fired:
            a = acc[f["k"]]
            tags_f.append("at=" + site_of(a[3], a[4], a[5], target))

        def V(clause, msg, extra=()):
            viol.append({"clause": clause, "tags": sorted(set(tags_f) |
                                                          set(extra)),
                         "api": name, "msg": msg})

        if out[0] == "exc":
            e = out[1]
            cls = exc_class(psutil, e)
            res["outcome"] = cls
            if cls not in ("NSP", "ZP", "AD"):
                V("C03.leak", "%s leaked %r" % (name, e), [cls])
            else:
                epid = getattr(e, "pid", None)
                pid_ok = epid == target or (
                    name.startswith("process_iter") and epid in ever_pids)
                if not pid_ok:
                    V("C03.cause", "%s raised %r: pid is not the object's "
                      "pid %d" % (name, e, target), [cls, "pid"] + (
                          ["walker"] if walker else []))
                elif cls == "NSP":
                    if epid in final:
                        V("C03.cause", "%s raised %r but pid %s is still "
                          "listed" % (name, e, epid), [cls, "listed"] + (
                              ["reused_msg"] if "reused" in str(
                                  getattr(e, "msg", "")) else []))
                elif cls == "ZP":
                    if epid not in ever_zombie:
                        V("C03.cause", "%s raised %r but pid %s never was a "
                          "zombie" % (name, e, epid), [cls, "nozombie"])
                elif cls == "AD":
                    if not denied:
                        V("C03.cause", "%s raised %r but nothing was denied"
                          % (name, e), [cls, "nodeny"])
        else:
            v = out[1]
            res["outcome"] = "value"
            err = shape_error(psutil, name, v, args)
            if err:
                V("C03.shape", err, ["shape"])
            else:
                if name == "threads":
                    bad = [t[0] for t in v if t[0] not in ever_tids]
                    if bad:
                        V("C03.shape", "threads() lists tids %r that never "
                          "existed" % bad, ["entity"])
                elif name == "open_files":
                    bad = [t[1] for t in v if t[1] not in ever_fds]
                    if bad:
                        V("C03.shape", "open_files() lists fds %r that never "
                          "existed" % bad, ["entity"])
                elif name in ("children", "children_r", "parents",
                              "process_iter", "process_iter_attrs"):
                    pl = [x.pid for x in v]
                    bad = [x for x in pl if x not in ever_pids]
                    if bad:
                        V("C03.shape", "%s returned pids %r that never "
                          "existed" % (name, bad), ["entity"])
                    if len(set(pl)) != len(pl):
                        V("C03.shape", "%s returned duplicates %r" %
                          (name, pl), ["dup"])

        # the same query once more, undisturbed: a refused call must not
        # leave the object half-updated
        if denied and not any(f["kind"] not in ERRNO for f in faults) and \
                target in final and not final[target][1]:
            k.begin_op(900)
            try:
                o2 = ("value", call_subject(psutil, p, name, args))
            except BaseException as e:  # noqa: BLE001
                if is_harness_exc(e):
                    raise
                o2 = ("exc", e)
            k.end_op()
            if o2[0] == "exc" and exc_class(psutil, o2[1]) not in (
                    "NSP", "ZP", "AD"):
                V("C03.leak", "%s, called again with nothing refused after "
                  "a refused call, leaked %r" % (name, o2[1]),
                  [exc_class(psutil, o2[1]), "second_call"])
            elif o2[0] == "exc" and exc_class(psutil, o2[1]) == "AD":
                V("C03.cause", "%s, called again with nothing refused, "
                  "raised %r" % (name, o2[1]), ["AD", "nodeny",
                                                "second_call"])
        # a zombie that is reaped after the call: gone for good as well
        if plan.get("then_reap") and target in final:
            k.begin_op(1)
            k.apply_event({"ev": "reap", "pid": target})
            k.end_op()
            snaps.append(k.snapshot())
            final = snaps[-1]
        # gone stays gone
        vanished_target = (any(f["kind"] == "VANISH" and f["pid"] == target
                               for f in faults) or plan.get("then_reap")) \
            and target not in final
        if vanished_target and plan.get("post", True):
            exe_cached = warm_exe_ok or (
                name == "exe" and out[0] == "value") or p._exe is not None
            # the tree walkers answer from other processes' records: they
            # must refuse as well, whether asked first (nothing has noticed
            # the death yet) or last
            walkers = ["children", "children_r", "parent", "parents"]
            first = faults[0]["k"] % 2 == 0
            order = (walkers if first else []) + GETTERS + [
                "is_running", "wait"] + ([] if first else walkers)
            for i, g in enumerate(order):
                if g in GETTERS and not hasattr(
                        psutil.Process, g.replace("_uss", "").replace(
                            "_ng", "").replace("_all", "")):
                    continue
                k.begin_op(2 + i)
                try:
                    if g == "wait":
                        o = ("value", p.wait(0))
                    else:
                        o = ("value", call_subject(psutil, p, g, {}))
                except BaseException as e:  # noqa: BLE001
                    if is_harness_exc(e):
                        raise
                    o = ("exc", e)
                k.end_op()
                if g == "is_running":
                    if o != ("value", False):
                        V("C03.gone_stays_gone", "is_running() -> %r after "
                          "the process vanished" % (o[1],), [g])
                    continue
                if g == "wait":
                    if o[0] != "value":
                        V("C03.gone_stays_gone", "wait(0) raised %r after "
                          "the process vanished" % (o[1],), [g])
                    continue
                if o[0] == "value":
                    if g == "create_time" or (g == "exe" and exe_cached):
                        continue
                    V("C03.gone_stays_gone", "%s() returned %r after the "
                      "process vanished" % (g, o[1]), [g, "value"])
                else:
                    cls = exc_class(psutil, o[1])
                    if cls != "NSP":
                        V("C03.gone_stays_gone", "%s() raised %r after the "
                          "process vanished" % (g, o[1]), [g, cls])
                    elif getattr(o[1], "pid", None) != target:
                        V("C03.gone_stays_gone", "%s() raised %r with a "
                          "foreign pid" % (g, o[1]), [g, "pid"])
        res["digest"] = k.digest.hexdigest()
        res["stats"] = dict(k.stats)
        res["unmodelled"] = list(__import__("sim.seams").seams.State.unmodelled)
        return res

    # ---- unit = one world, everything enumerated -------------------------
    def run_unit(self, W, unit_seed, tier):
        rng = self.rng("fp", unit_seed)
        world, target = self.gen_world(rng, W.boot)
        u = {"evals": 0, "keys": set(), "stats": {}, "violations": [],
             "harness_errors": [], "timeouts": 0, "digest_checks": 0}
        self._psutil = W.psutil
        subs = self.subjects_for(rng, tier)
        warm_pool = [[], [], ["name"], ["exe"], ["name", "exe"]]
        max_k = 60 if tier == "quick" else 200
        sample_plan = None
        for name, args in subs:
            base = {"world": world, "target": target, "subject": name,
                    "args": args, "warm": rng.choice(warm_pool),
                    "faults": []}
            dry = W.execute_forked(base)
            u["evals"] += 1
            if not self._absorb(u, base, dry, None):
                continue
            acc = dry.get("acc") or []
            targets = []
            extra_deny = []
            for (kk, kind, arg, pid, pidrel) in acc:
                if pidrel and pid is not None and kk < max_k:
                    targets.append((kk, kind, arg, pid))
                elif not pidrel and kind in ("stat", "lstat") and \
                        not str(arg).startswith(("/proc", "/sys", "/dev")) \
                        and kk < max_k:
                    # a file the process refers to (descriptor target,
                    # mapped file, cmdline[0]) may be unreadable as well
                    extra_deny.append((kk, kind, arg, target))
            n = len(acc)
            singles = []
            for (kk, kind, arg, pid) in targets:
                for fk in KINDS:
                    if fk in ("VANISH", "ZOMBIE", "HALFGONE") and \
                            pid in (1, 1000):
                        continue
                    singles.append((kk, kind, arg, pid, fk))
            for (kk, kind, arg, pid) in extra_deny:
                for fk in ("EACCES", "EPERM"):
                    singles.append((kk, kind, arg, pid, fk))
            thread_exits = {}
            for (kk, kind, arg, pid) in targets:
                m_ = re.search(r"/proc/%d/task/(\d+)/" % target, str(arg))
                if m_ and int(m_.group(1)) != target and pid == target:
                    singles.append((kk, kind, arg, pid, "THREAD_EXIT"))
                    thread_exits[kk] = int(m_.group(1))
            for (kk, kind, arg, pid) in targets:
                if kind == "open" and str(arg).endswith("/smaps_rollup") \
                        and pid == target:
                    # the quirk psutil's sources document: smaps_rollup
                    # answers ENOENT for a process that is still there
                    # (the smaps file works): a value is expected
                    singles.append((kk, kind, arg, pid, "ENOENT_QUIRK"))
            for (kk, kind, arg, pid, fk) in list(singles):
                if fk == "ZOMBIE" and pid == target and (kk + len(name)) % 3 \
                        == 0:
                    # the same, and the parent reaps the zombie right after
                    # the call: every later query must say NoSuchProcess
                    singles.append((kk, kind, arg, pid, "ZOMBIE+REAP"))
            for (kk, kind, arg, pid, fk) in singles:
                plan = dict(base, faults=[{"k": kk, "kind": fk.split("+")[0],
                                           "pid": pid}])
                if fk == "THREAD_EXIT":
                    plan["faults"][0]["tid"] = thread_exits[kk]
                if fk.endswith("+REAP"):
                    plan["then_reap"] = True
                r = W.execute_forked(plan)
                u["evals"] += 1
                if self._absorb(u, plan, r, (name, site_of(kind, arg, pid,
                                                           target), fk)):
                    if sample_plan is None and fk == "VANISH" and \
                            r.get("outcome") == "NSP":
                        sample_plan = {"subject": name, "fault": plan["faults"],
                                       "site": site_of(kind, arg, pid, target),
                                       "outcome": r.get("outcome")}
                    # determinism spot check (DESIGN 4.4)
                    if (u["evals"] % 97) == 0:
                        r2 = W.execute_forked(plan)
                        u["digest_checks"] += 1
                        if r2.get("digest") != r.get("digest"):
                            u["harness_errors"].append(
                                "digest mismatch on re-execution: %s" % name)
            # two-fault sequences: DENY at i, VANISH at j > i
            pairs = []
            for (i, _, _, pi) in targets:
                for (j, _, _, pj) in targets:
                    if j > i and pj not in (1, 1000):
                        pairs.append((i, pi, j, pj))
            if n > 12 or (tier == "quick" and n > 6 and
                          name not in ("parent", "parents", "children")):
                rng2 = self.rng("fp2", unit_seed, name)
                rng2.shuffle(pairs)
                pairs = pairs[:(3 if tier == "quick" else 25)]
            for (i, pi, j, pj) in pairs:
                dk = "EACCES" if (i + j) % 2 else "EPERM"
                plan = dict(base, faults=[
                    {"k": i, "kind": dk, "pid": pi},
                    {"k": j, "kind": "VANISH", "pid": pj}])
                r = W.execute_forked(plan)
                u["evals"] += 1
                self._absorb(u, plan, r, (name, "pair", dk + "+VANISH"))
        u["sample"] = sample_plan
        return u

    def _absorb(self, u, plan, r, keybase):
        if not isinstance(r, dict) or r.get("timeout"):
            u["timeouts"] += 1
            u["harness_errors"].append("timeout: %s %r" % (
                plan["subject"], plan.get("faults")))
            return False
        if "harness_error" in r:
            u["harness_errors"].append("%s [%s %r] %s" % (
                r["harness_error"], plan["subject"], plan.get("faults"),
                r.get("tb", "")[-600:]))
            return False
        if r.get("unmodelled"):
            u["harness_errors"].append("unmodelled seam: %r" %
                                       (r["unmodelled"],))
        if "setup_failed" in r:
            u["stats"]["setup_failed"] = u["stats"].get("setup_failed", 0) + 1
            return False
        for kk, vv in (r.get("stats") or {}).items():
            u["stats"][kk] = u["stats"].get(kk, 0) + vv
        if keybase is not None and r.get("fired"):
            u["keys"].add("|".join(keybase) + "|" + str(r.get("outcome")))
            u["stats"]["outcome_" + str(r.get("outcome"))] = \
                u["stats"].get("outcome_" + str(r.get("outcome")), 0) + 1
        for v in r.get("violations") or []:
            u["violations"].append({"sig": list(sig_of(v)), "msg": v["msg"],
                                    "plan": plan})
        return True

    def simplify(self, plan):
        import json
        # drop the post phase, then the warm-up
        if plan.get("warm"):
            c = json.loads(json.dumps(plan))
            c["warm"] = []
            yield c


ENGINE = FaultPoint()

FaultPoint.RULE = (
    "per seeded world: every Process query subject x every pid-related OS "
    "access index k (from a fault-free dry run) x {VANISH, ZOMBIE, EACCES, "
    "EPERM} is executed (enumerated, not sampled), plus sampled two-fault "
    "sequences; a case is distinct+non-trivial per (subject, access site "
    "with pids/fds abstracted, fault kind, outcome class) and counted only "
    "if the fault actually fired inside the call")
FaultPoint.ASSUMPTIONS = [
    "stub kernel renders procfs as observed on the host kernel (6.18); "
    "zombie/absent errno table from DESIGN 3.3",
    "caller is root: AccessDenied can only come from an injected EACCES/EPERM",
    "faults are not aimed at pid 1 or at the calling process itself for "
    "VANISH/ZOMBIE",
    "gone_stays_gone judges the getters of the test-suite's process_namespace"
    " (children() of a gone process returning [] is not judged)",
]
FaultPoint.COMPONENTS = {
    "real": ["psutil/__init__.py", "psutil/_common.py", "psutil/_pslinux.py",
             "psutil/_psposix.py", "_psutil_linux/_psutil_posix: constants, "
             "check_pid_range, getpagesize"],
    "stub": ["Linux kernel (SimKernel: process table, procfs, per-pid "
             "syscalls)", "clocks", "pwd database",
             "syscall-performing entry points of the C extensions"],
}
FaultPoint.PROBES = ["fault_EACCES", "fault_EPERM", "ev_in_vanish",
                     "ev_in_zombify", "outcome_NSP", "outcome_ZP",
                     "outcome_AD", "outcome_value"]
