"""fdtable engine -- C14: open_files() / num_fds() / io_counters() against a
descriptor table that changes while it is being scanned (descriptors closing
between the listing and their inspection, new ones opening) with the process
staying alive; in a separate population the process dies mid-scan.
"""

import os as _os

from .base import EngineBase, exc_class, is_harness_exc
from .. import gen
from ..runner import sig_of

ACC = {0: "r", 1: "w", 2: "r+"}


def want_mode(flags):
    acc = flags & 3
    if acc == 3:
        return None     # the statement names no string for access mode 3
    m = ACC[acc]
    if flags & _os.O_APPEND:
        m = {"w": "a", "r+": "a+", "r": "r"}[m]
    return m


class FdTable(EngineBase):
    name = "fdtable"
    SHRINK_LISTS = [("inside",), ("block", "between"), ("fds",)]

    def boot_config(self, rng):
        b = EngineBase.boot_config(self, rng)
        b["has_io"] = True
        return b

    def gen_world(self, rng):
        files = {}
        fds = []
        n = rng.choice([0, 1, 3, 6, 12, 25, 40])
        nums = sorted(rng.sample(range(0, 200), n))
        for fd in nums:
            d = gen.gen_fd(rng, fd, files)
            if rng.random() < 0.08:
                d["flags"] = (d["flags"] & ~3) | 3     # access mode 3
            fds.append([fd, d])
        io_extra = rng.choice(["", "", "\n", "garbage line\n", "x: y: z\n",
                               "\n\n", "total_rchar: 77\n",
                               "garbage rchar: 9\n", "xwrite_bytes: 5\n",
                               "cancelled_write_bytes: 3\n",
                               "last_syscw: 4\nold_read_bytes: 8\n"])
        io = {"rchar": rng.randrange(0, 2 ** 63),
              "wchar": rng.randrange(0, 2 ** 40),
              "syscr": rng.randrange(0, 10 ** 9),
              "syscw": rng.randrange(0, 10 ** 9),
              "read_bytes": rng.randrange(0, 2 ** 50),
              "write_bytes": rng.randrange(0, 2 ** 50),
              "cancelled_write_bytes": rng.randrange(0, 99)}
        world = {"fds": fds, "files": files, "io": io, "io_extra": io_extra,
                 "order": rng.choice(["sorted", "reversed", "o3", "o9"])}
        if rng.random() < 0.3:
            # the caller happens to sit in a directory holding regular files
            # named like the (relative) link targets of some descriptors
            world["caller_cwd"] = "/work"
            for fd, d in fds:
                tgt = {"socket": "socket:[%d]" % d["ino"],
                       "pipe": "pipe:[%d]" % d["ino"],
                       "anon": "anon_inode:" + str(d.get("target"))}.get(
                           d["kind"], d.get("target", ""))
                if tgt and not tgt.startswith("/") and rng.random() < 0.8:
                    files["/work/" + tgt] = {"t": "f", "data": "decoy"}
        return world

    def execute(self, W, plan):
        psutil = W.psutil
        T = 42
        fds = {str(fd): d for fd, d in plan["fds"]}
        world = {"procs": [{"pid": T, "ppid": 1, "comm": "tgt", "fds": fds,
                            "io": plan["io"]}],
                 "files": plan["files"], "io_extra": plan["io_extra"],
                 "listdir_order": plan["order"], "max_acc": 40000}
        if plan.get("forked"):
            # the program imported psutil, fork()ed and goes on in the child
            # (another PID, a descriptor table of its own): the target is its
            # parent, the process that was "self" when psutil was imported
            from ..kernel import SELF_PID_DEFAULT
            T = SELF_PID_DEFAULT
            world["procs"][0]["pid"] = T
            world["self_pid"] = T + 1
            world["self_ppid"] = T
        if plan.get("caller_cwd"):
            world["caller_cwd"] = plan["caller_cwd"]
        k = self.make_kernel(W.boot, world)
        k.keep_snaps = True
        self.install(k)
        viol = []

        def V(clause, tags, api, msg):
            viol.append({"clause": clause, "tags": sorted(set(tags)),
                         "api": api, "msg": msg})

        k.begin_op(0)
        p = psutil.Process(T)
        k.end_op()
        subject = plan["subject"]
        for e in plan.get("inside") or []:
            k.schedule_at_access(0, 1, e["k"], e["ev"])
        block = plan.get("block")
        cm = None
        if block:
            # the judged call is the second one (inside one oneshot() block
            # or not) after the table changed: it must describe the table it
            # runs against, not the one its predecessor saw
            if block.get("oneshot", True):
                cm = p.oneshot()
            k.begin_op(5)
            try:
                if cm is not None:
                    cm.__enter__()
                getattr(p, block["first"])()
            except BaseException as e:  # noqa: BLE001
                if is_harness_exc(e):
                    raise
            k.end_op()
            for ev in block["between"]:
                k.apply_event(ev)
            if block.get("reborn"):
                # the process ended and its PID now belongs to a younger one;
                # the application builds a new Process object for it
                if cm is not None:
                    try:
                        cm.__exit__(None, None, None)
                    except BaseException as e:  # noqa: BLE001
                        if is_harness_exc(e):
                            raise
                    cm = None
                k.apply_event({"ev": "reuse", "pid": T, "ppid": 1,
                               "comm": "tgt2", "io": block["reborn"]["io"],
                               "fds": {}})
                k.begin_op(6)
                p = psutil.Process(T)
                k.end_op()
        initial = {int(fd): dict(d) for fd, d in (
            k.procs[T].fds if T in k.procs else {}).items()}
        if plan.get("deny_fdinfo"):
            # the offset/flags record of one still-open descriptor cannot
            # be read (EACCES after the target changed credentials, EMFILE,
            # EIO): the call may fail with that error, it must not drop
            # the descriptor silently
            fd_, eno_ = plan["deny_fdinfo"]
            k.deny = {"/proc/%d/fdinfo/%d" % (T, fd_): eno_}
        acc0 = len(k.acclog)
        ver0 = k.version
        procfs0 = psutil.PROCFS_PATH
        if plan.get("procfs_moved"):
            # the application goes on to look at another procfs mount (which
            # knows nothing of this PID): an existing Process object stays
            # bound to the procfs it was created from, for every file it reads
            psutil.PROCFS_PATH = plan["procfs_moved"]
        k.begin_op(1)
        try:
            out = ("value", getattr(p, subject)())
        except BaseException as e:  # noqa: BLE001
            if is_harness_exc(e):
                raise
            out = ("exc", e)
        k.end_op()
        psutil.PROCFS_PATH = procfs0
        k.deny = {}
        if cm is not None:
            try:
                cm.__exit__(None, None, None)
            except BaseException as e:  # noqa: BLE001
                if is_harness_exc(e):
                    raise
        acc = [a for a in k.acclog[acc0:] if a[2] >= 0]
        res = {"violations": viol, "nacc": len(acc),
               "acc": [[a[2], a[3], str(a[4])] for a in acc][:400]}
        alive = T in k.procs and not k.procs[T].zombie
        changed = k.version != ver0
        closed = {fd for fd in initial if fd not in (
            k.procs[T].fds if T in k.procs else {})}
        opened = {fd for fd in (k.procs[T].fds if T in k.procs else {})
                  if fd not in initial}
        tags = []
        if block:
            tags.append("second_call_in_block" if block.get("oneshot", True)
                        else "second_call")
        if plan.get("procfs_moved"):
            tags.append("procfs_path_reassigned")
        if plan.get("forked"):
            tags.append("target_is_parent_after_fork")
        if changed:
            tags.append("table_changed")
        if not alive:
            tags.append("died")
        if out[0] == "exc" and plan.get("deny_fdinfo") and (
                exc_class(psutil, out[1]) == "AD" or (
                    isinstance(out[1], OSError) and
                    out[1].errno == plan["deny_fdinfo"][1])):
            res["outcome"] = "refused"
        elif out[0] == "exc":
            cls = exc_class(psutil, out[1])
            res["outcome"] = cls
            if alive:
                t = list(tags) + [cls]
                if cls == "KeyError" and any((d["flags"] & 3) == 3
                                             for d in initial.values()):
                    t.append("access_mode_3")
                V("C14.no_fail_live", t, subject, "%s() raised %r for a live "
                  "process" % (subject, out[1]))
            elif cls not in ("NSP", "ZP"):
                V("C14.dead_error", tags + [cls], subject,
                  "%s() raised %r after the process died" % (subject, out[1]))
        else:
            res["outcome"] = "value"
            val = out[1]
            if subject == "num_fds":
                lst = None
                for a in acc:
                    if a[3] == "listdir":
                        lst = k.snap_at(a[7])
                want = len(lst[T][3]) if lst and T in lst else None
                if lst is None and not changed:
                    # no listing at all during the call
                    want = len(initial)
                    tags = tags + ["no_listing_in_call"]
                if want is not None and val != want:
                    V("C14.num_fds", tags, subject, "num_fds() -> %r, table "
                      "size at the listing %r" % (val, want))
            elif subject == "io_counters":
                io = (block or {}).get("reborn", {}).get("io") or plan["io"]
                want = (io["syscr"], io["syscw"], io["read_bytes"],
                        io["write_bytes"], io["rchar"], io["wchar"])
                names = ("read_count", "write_count", "read_bytes",
                         "write_bytes", "read_chars", "write_chars")
                if tuple(val) != want or tuple(val._fields) != names:
                    V("C14.io_counters", tags, subject, "io_counters() -> %r,"
                      " kernel says %r" % (val, dict(zip(names, want))))
            else:
                seen = {}
                for ent in val:
                    fd = ent.fd
                    seen[fd] = seen.get(fd, 0) + 1
                    d = initial.get(fd)
                    if d is None:
                        d = (k.procs[T].fds if T in k.procs else {}).get(fd)
                    if d is None:
                        V("C14.sound", tags + ["unknown_fd"], subject,
                          "entry for fd %d which never existed" % fd)
                        continue
                    tgt = k.fd_target(d)
                    lit = k.files.get(tgt)
                    okpath = tgt.startswith("/") and (
                        ent.path == tgt or (
                            tgt.endswith(" (deleted)") and
                            not (lit is not None and lit["t"] == "f") and
                            ent.path == tgt[:-10]))
                    node = k.files.get(ent.path)
                    if not okpath or node is None or node["t"] != "f":
                        V("C14.sound", tags + ["path", d["kind"]], subject,
                          "fd %d reported as %r; descriptor points to %r "
                          "(kind %s)" % (fd, ent.path, tgt, d["kind"]))
                        continue
                    if ent.position != d["pos"] or ent.flags != d["flags"]:
                        V("C14.sound", tags + ["pos_flags"], subject,
                          "fd %d: position/flags %r/%r, kernel %r/%r" % (
                              fd, ent.position, ent.flags, d["pos"],
                              d["flags"]))
                    wm = want_mode(d["flags"])
                    if wm is not None and ent.mode != wm:
                        V("C14.sound", tags + ["mode"], subject,
                          "fd %d: flags 0%o -> mode %r, expected %r" % (
                              fd, d["flags"], ent.mode, wm))
                dup = [fd for fd, n in seen.items() if n > 1]
                if dup:
                    V("C14.sound", tags + ["duplicate"], subject,
                      "descriptors listed twice: %r" % dup)
                # completeness: unchanged regular-file descriptors
                for fd, d in initial.items():
                    if fd in closed or d["kind"] != "file":
                        continue
                    node = k.files.get(d["target"])
                    if node is None or node["t"] != "f":
                        continue
                    if fd not in seen:
                        V("C14.complete", tags + (
                            ["literal_deleted_suffix"] if d["target"].endswith(
                                " (deleted)") else []), subject,
                          "fd %d -> %r stayed open for the whole call but is "
                          "missing from %d entries" % (fd, d["target"],
                                                       len(val)))
        res["digest"] = k.digest.hexdigest()
        res["stats"] = dict(k.stats)
        res["closed"] = len(closed)
        return res

    def run_unit(self, W, unit_seed, tier):
        rng = self.rng("fd", unit_seed)
        world = self.gen_world(rng)
        u = {"evals": 0, "keys": set(), "stats": {}, "violations": [],
             "harness_errors": [], "timeouts": 0, "digest_checks": 0}
        sample = None
        for subject in ("open_files", "num_fds", "io_counters"):
            base = dict(world, subject=subject, inside=[])
            dry = W.execute_forked(base)
            u["evals"] += 1
            if not self._absorb(u, base, dry, ("dry", subject)):
                continue
            n = dry.get("nacc", 0)
            fdnums0 = [fd for fd, _ in world["fds"]]
            if rng.random() < 0.3:
                fp = dict(base, forked=True)
                r = W.execute_forked(fp)
                u["evals"] += 1
                self._absorb(u, fp, r, ("forked", subject))
            if rng.random() < 0.5:
                mp = dict(base, procfs_moved=rng.choice(
                    ["/host/proc", "/mnt/proc2", "/proc/1/root/proc"]))
                r = W.execute_forked(mp)
                u["evals"] += 1
                self._absorb(u, mp, r, ("procfs_moved", subject))
            for j in range(2 if tier == "quick" else 6):
                between = []
                for _ in range(rng.choice([1, 2, 3])):
                    if fdnums0 and rng.random() < 0.5:
                        between.append({"ev": "close_fd", "pid": 42,
                                        "fd": rng.choice(fdnums0)})
                    else:
                        files = {}
                        newfd = 300 + rng.randrange(50)
                        d = gen.gen_fd(rng, newfd, files)
                        if all(f in world["files"] for f in files):
                            between.append({"ev": "open_fd", "pid": 42,
                                            "fd": newfd, "desc": d})
                regs = [(fd, d) for fd, d in world["fds"]
                        if d["kind"] == "file" and
                        not d["target"].endswith(" (deleted)")]
                if regs and rng.random() < 0.5:
                    # a path seen as a regular file is re-created as a
                    # device / directory / socket and opened again
                    fd, d = rng.choice(regs)
                    kind_, node = rng.choice([
                        ("chr", {"t": "c", "rdev": 1281}),
                        ("dir", {"t": "d"}), ("chr", {"t": "s"})])
                    between += [
                        {"ev": "close_fd", "pid": 42, "fd": fd},
                        {"ev": "file_set", "path": d["target"], "node": node},
                        {"ev": "open_fd", "pid": 42, "fd": 400 + fd, "desc": {
                            "kind": kind_, "target": d["target"], "pos": 0,
                            "flags": 2, "ino": 900 + fd}}]
                if not between:
                    continue
                bp = dict(base, block={"first": rng.choice(
                    ["open_files", "open_files", "num_fds", "io_counters"]),
                    "oneshot": rng.random() < 0.5,
                    "between": between})
                r = W.execute_forked(bp)
                u["evals"] += 1
                self._absorb(u, bp, r, ("block", subject, bp["block"]["first"],
                                        str(len(between))))
            if subject == "io_counters":
                for j in range(2):
                    lower = {kk: rng.randrange(0, max(1, vv // 2 + 1))
                             for kk, vv in world["io"].items()}
                    bp = dict(base, block={
                        "first": "io_counters", "oneshot": False,
                        "between": [], "reborn": {"io": lower}})
                    r = W.execute_forked(bp)
                    u["evals"] += 1
                    self._absorb(u, bp, r, ("reborn", subject))
            if subject == "open_files":
                regs_ = [fd for fd, d in world["fds"] if d["kind"] == "file"
                         and d["target"] in world["files"] and
                         not d["target"].endswith(" (deleted)")]
                for j in range(2 if regs_ else 0):
                    dp = dict(base, deny_fdinfo=[rng.choice(regs_),
                                                 rng.choice([13, 24, 5])])
                    r = W.execute_forked(dp)
                    u["evals"] += 1
                    self._absorb(u, dp, r, ("deny_fdinfo", subject))
            if subject != "open_files" or n == 0:
                continue
            fdnums = [fd for fd, _ in world["fds"]]
            budget = 25 if tier == "quick" else 120
            for j in range(budget):
                inside = []
                nev = rng.choice([1, 1, 2, 3])
                die = rng.random() < 0.15
                for _ in range(nev):
                    kk = rng.randrange(0, n)
                    r = rng.random()
                    if fdnums and r < 0.75:
                        inside.append({"k": kk, "ev": {
                            "ev": "close_fd", "pid": 42,
                            "fd": rng.choice(fdnums)}})
                    else:
                        files = {}
                        newfd = 300 + rng.randrange(50)
                        d = gen.gen_fd(rng, newfd, files)
                        if all(f in world["files"] for f in files):
                            inside.append({"k": kk, "ev": {
                                "ev": "open_fd", "pid": 42, "fd": newfd,
                                "desc": d}})
                if die:
                    inside.append({"k": rng.randrange(0, n), "ev": {
                        "ev": rng.choice(["vanish", "zombify"]), "pid": 42}})
                plan = dict(base, inside=inside)
                r = W.execute_forked(plan)
                u["evals"] += 1
                self._absorb(u, plan, r, (
                    "open_files", "die" if die else "live",
                    str(len(inside)), str(min(len(fdnums), 9))))
                if sample is None and isinstance(r, dict) and \
                        r.get("closed"):
                    sample = {"subject": subject, "fds": len(fdnums),
                              "inside": inside[:2],
                              "outcome": r.get("outcome")}
        u["sample"] = sample
        return u

    def _absorb(self, u, plan, r, keybase):
        if not isinstance(r, dict) or r.get("timeout"):
            u["timeouts"] += 1
            u["harness_errors"].append("timeout")
            return False
        if "harness_error" in r:
            u["harness_errors"].append(r["harness_error"] + " " +
                                       r.get("tb", "")[-600:])
            return False
        for kk, vv in (r.get("stats") or {}).items():
            u["stats"][kk] = u["stats"].get(kk, 0) + vv
        u["keys"].add("|".join(keybase) + "|" + str(r.get("outcome")) +
                      "|closed%d" % min(r.get("closed", 0), 3))
        for v in r.get("violations") or []:
            u["violations"].append({"sig": list(sig_of(v)), "msg": v["msg"],
                                    "plan": plan})
        return True


FdTable.RULE = (
    "per seeded descriptor table (0-40 descriptors of every kind, all access "
    "modes incl. 3, O_* flag mixes, offsets to 2^63-1, /proc/<pid>/io with "
    "blank/garbage lines): a fault-free run numbers the accesses of "
    "open_files(), then seeded runs close/open descriptors (and in 15% kill "
    "or zombify the process) just before chosen access indexes; distinct+"
    "non-trivial = (subject, live/died, #events, table size class, outcome, "
    "#descriptors actually closed during the scan)")
FdTable.ASSUMPTIONS = [
    "descriptor numbers are not re-used for a different file within one scan",
    "for access mode 3 the mode string is not judged (the statement names "
    "none) but the call must not fail",
    "deleted targets are judged for soundness only, not for completeness",
]
FdTable.COMPONENTS = {
    "real": ["psutil/_pslinux.py (open_files, num_fds, io_counters, "
             "file_flags_to_mode, readlink)", "psutil/__init__.py"],
    "stub": ["/proc/<pid>/fd, fdinfo, io; target files (SimKernel VFS)"],
}
FdTable.PROBES = ["ev_in_close_fd", "ev_in_open_fd", "ev_in_vanish",
                  "ev_in_zombify"]

ENGINE = FdTable()
