"""foreign engine -- C20: the BSD / macOS / Solaris / AIX / Windows layers run
on Linux over stub native modules, with an errno injected at every native
(and, for the procfs based layers, every os.*) call of every Process method.

The stubs return records whose every slot holds a distinct recognisable value
in the slot order of the C sources of this repository (psutil/arch/*,
psutil/_psutil_*.c) -- not derived from the Python *_map dicts.
"""

import errno
import ntpath
import socket
import posixpath
import types

from .base import EngineBase, exc_class, is_harness_exc
from .. import seams
from .. import kernel as K
from ..runner import sig_of

PLATFORMS = ["freebsd14", "openbsd7", "netbsd10", "darwin", "sunos5", "aix7",
             "win32"]
PID = 4321
LOWPID = {"sunos5": 2, "win32": 4}

# ---------------------------------------------------------------------------
# native function inventories (from the PyMethodDef tables of the C sources)
BSD_COMMON = """proc_cmdline proc_name proc_oneshot_info proc_threads proc_cwd
 proc_num_fds proc_open_files proc_environ boot_time cpu_count_logical
 cpu_stats cpu_times disk_io_counters disk_partitions net_connections
 net_io_counters per_cpu_times pids swap_mem users virtual_mem check_pid_range
 set_debug""".split()
FUNCS = {
    "freebsd14": BSD_COMMON + """proc_net_connections proc_num_threads
 cpu_topology proc_cpu_affinity_get proc_cpu_affinity_set proc_exe
 proc_getrlimit proc_memory_maps proc_setrlimit cpu_freq sensors_battery
 sensors_cpu_temperature""".split(),
    "openbsd7": BSD_COMMON + ["cpu_freq"],
    "netbsd10": BSD_COMMON + ["proc_num_threads"],
    "darwin": """proc_cmdline proc_net_connections proc_cwd proc_environ
 proc_exe proc_kinfo_oneshot proc_memory_uss proc_name proc_num_fds
 proc_open_files proc_pidtaskinfo_oneshot proc_threads boot_time
 cpu_count_cores cpu_count_logical cpu_freq cpu_stats cpu_times
 disk_io_counters disk_partitions disk_usage_used net_io_counters
 per_cpu_times pids sensors_battery swap_mem users virtual_mem
 check_pid_range set_debug""".split(),
    "sunos5": """proc_basic_info proc_cpu_num proc_cpu_times proc_cred
 proc_environ proc_memory_maps proc_name_and_args proc_num_ctx_switches
 query_process_thread boot_time cpu_count_cores cpu_stats disk_io_counters
 disk_partitions net_connections net_if_stats net_io_counters per_cpu_times
 swap_mem users check_pid_range set_debug""".split(),
    "aix7": """proc_args proc_basic_info proc_cpu_times proc_cred proc_environ
 proc_name proc_threads proc_io_counters proc_num_ctx_switches boot_time
 disk_io_counters disk_partitions per_cpu_times swap_mem users virtual_mem
 net_io_counters cpu_stats net_connections net_if_stats check_pid_range
 set_debug""".split(),
    "win32": """proc_cmdline proc_cpu_affinity_get proc_cpu_affinity_set
 proc_cwd proc_environ proc_exe proc_io_counters proc_io_priority_get
 proc_io_priority_set proc_is_suspended proc_kill proc_memory_info
 proc_memory_maps proc_memory_uss proc_num_handles proc_open_files
 proc_priority_get proc_priority_set proc_suspend_or_resume proc_threads
 proc_times proc_username proc_wait proc_info boot_time cpu_count_cores
 cpu_count_logical cpu_freq cpu_stats cpu_times disk_io_counters
 disk_partitions disk_usage getloadavg getpagesize swap_percent
 init_loadavg_counter net_connections net_if_addrs net_if_stats
 net_io_counters per_cpu_times pid_exists pids ppid_map sensors_battery users
 virtual_mem winservice_enumerate winservice_query_config
 winservice_query_descr winservice_query_status winservice_start
 winservice_stop QueryDosDevice check_pid_range set_debug""".split(),
}
POSIX_FUNCS = """getpagesize getpriority net_if_addrs net_if_flags
 net_if_is_running net_if_mtu setpriority net_if_duplex_speed""".split()

NATIVE_NAME = {"freebsd14": "_psutil_bsd", "openbsd7": "_psutil_bsd",
               "netbsd10": "_psutil_bsd", "darwin": "_psutil_osx",
               "sunos5": "_psutil_sunos", "aix7": "_psutil_aix",
               "win32": "_psutil_windows"}

# record sizes in C order
RECORDS = {"proc_oneshot_info": 25, "proc_kinfo_oneshot": 11,
           "proc_pidtaskinfo_oneshot": 8, "proc_info": 22,
           "proc_memory_info": 10, "proc_io_counters": 6, "proc_times": 3,
           "proc_cred": 6, "proc_cpu_times": 4, "proc_num_ctx_switches": 2}
BASIC_INFO = {"sunos5": 12, "aix7": 8}


def slot(fname, i):
    """Distinct recognisable value for slot i of record fname."""
    base = (sum(ord(c) * (j + 3) for j, c in enumerate(fname)) % 89 + 11)
    return base * 1000 + i * 7 + 3


class Stub:
    """State shared by the stub native modules of one run."""

    def __init__(self, platform):
        self.platform = platform
        self.consts = {}
        self.faults = {}        # access index within op -> fault dict
        self.calls = []         # (k, fname, args)
        self.injected = None
        self.armed = False

    def const(self, name):
        if name not in self.consts:
            self.consts[name] = 7000 + len(self.consts) * 3
        return self.consts[name]


def make_error(eno, winerror=None):
    e = OSError(eno, K._os.strerror(eno))
    e.winerror = winerror if winerror is not None else 0
    return e


def record(stub, k, fname, pid, n):
    vals = [slot(fname, i) for i in range(n)]
    p = k.procs.get(pid)
    zombie = p is not None and p.zombie
    plat = stub.platform
    live_const = "SACTIVE" if plat == "aix7" else "SSLEEP"
    if fname == "proc_oneshot_info":          # BSD, C order
        vals[1] = stub.const("SZOMB") if zombie else stub.const("SSLEEP")
        vals[9] = 1700000000.5
        vals[24] = "nm%d" % pid
    elif fname == "proc_kinfo_oneshot":       # macOS
        vals[8] = 1700000000.5
        vals[9] = stub.const("SZOMB") if zombie else stub.const("SSLEEP")
        vals[10] = "nm%d" % pid
    elif fname == "proc_basic_info":          # Solaris / AIX
        vals[3] = 1700000000.5
        vals[6] = stub.const("SZOMB") if zombie else stub.const(live_const)
    elif fname == "proc_info":                # Windows
        vals[4] = 1700000000.5
    elif fname == "proc_times":
        vals = [1.25, 2.5, 1700000000.5]
    elif fname == "proc_cpu_times":
        vals = [1.25, 2.5, 3.75, 4.125]
    elif fname == "proc_pidtaskinfo_oneshot":
        vals[0], vals[1] = 1.25, 2.5
    return tuple(vals)


def default_result(stub, k, fname, args):
    """What the stub native function returns when it succeeds."""
    plat = stub.platform
    win = plat == "win32"
    pid = args[0] if args and isinstance(args[0], int) else None
    if fname in RECORDS:
        return record(stub, k, fname, pid, RECORDS[fname]) \
            if not (fname == "proc_io_counters" and plat == "aix7") else \
            tuple(slot(fname, i) for i in range(4))
    if fname == "proc_basic_info":
        return record(stub, k, fname, pid, BASIC_INFO[plat])
    if fname == "pids":
        if plat.startswith("openbsd"):
            # the OpenBSD kernel does not list PID 0 (psutil re-adds it)
            return sorted(p_ for p_ in k.procs if p_ != 0)
        return sorted(k.procs)
    if fname == "pid_exists":
        return pid in k.procs
    if fname == "ppid_map":
        return {p: 1 for p in k.procs}
    if fname == "proc_name":
        return "nm%d" % pid
    if fname == "proc_name_and_args":
        return ("nm%d" % pid, "nm%d -v" % pid)
    if fname in ("proc_cmdline", "proc_args"):
        return ["C:\\x.exe" if win else "/bin/x", "-v"]
    if fname == "proc_environ":
        if plat in ("darwin", "win32"):
            return "A=1\0B=2\0\0"
        return {"A": "1", "B": "2"}
    if fname == "proc_exe":
        return "C:\\x.exe" if win else "/bin/x"
    if fname == "proc_cwd":
        return "C:\\cwd\\" if win else "/cwd"
    if fname == "proc_threads":
        return [(pid * 10 + 1, 0.5, 0.25), (pid * 10 + 2, 1.5, 1.25)]
    if fname == "query_process_thread":
        return (0.5, 0.25)
    if fname == "proc_open_files":
        return ["\\Device\\HarddiskVolume1\\f.txt"] if win else \
            [("/tmp/f", 3)]
    if fname in ("proc_num_fds", "proc_num_handles"):
        return 17
    if fname == "proc_num_threads":
        return 3
    if fname == "net_connections" and plat in ("aix7", "sunos5") and \
            args and isinstance(args[0], int):
        # the native layer filters by pid; -1 means every process. One
        # listening TCP socket per process, descriptor number = 100 + pid
        want = args[0]
        rows = []
        for p_ in sorted(k.procs):
            if want in (-1, p_):
                rows.append((100 + p_, 2, 1, ("127.0.0.1", 8000 + p_ % 1000),
                             (), stub.const("TCPS_LISTEN"), p_))
        return rows
    if fname in ("proc_memory_maps", "proc_net_connections",
                 "net_connections", "users", "disk_partitions",
                 "winservice_enumerate"):
        return []
    if fname == "proc_cpu_affinity_get":
        return 1 if win else [0]
    if fname == "proc_getrlimit":
        return (10, 20)
    if fname == "proc_memory_uss":
        return 4096
    if fname == "proc_username":
        return ("DOM", "usr")
    if fname == "proc_is_suspended":
        return False
    if fname == "proc_priority_get":
        return stub.const("NORMAL_PRIORITY_CLASS")
    if fname == "proc_io_priority_get":
        return 2
    if fname == "proc_wait":
        return 0
    if fname == "proc_cpu_num":
        return 2
    if fname == "getpagesize":
        return 4096
    if fname == "getpriority":
        return 5
    if fname == "QueryDosDevice":
        return "C:"
    if fname in ("per_cpu_times",):
        return [(1.0, 2.0, 3.0, 4.0, 5.0)]
    if fname == "cpu_times":
        return (1.0, 2.0, 3.0, 4.0, 5.0)
    if fname in ("cpu_count_logical", "cpu_count_cores"):
        return 2
    if fname == "virtual_mem":
        return (8 << 30, 4 << 30, 16 << 30, 8 << 30) if win else \
            (8 << 30,) * 8
    if fname == "boot_time":
        return 1690000000.0
    if fname == "net_if_addrs":
        return list(k.cfg.get("if_addrs") or [])
    if fname in ("net_io_counters", "disk_io_counters", "net_if_stats"):
        return {}
    return None


def procnat_name(fname):
    """Per-process native calls: the ones faults are enumerated over."""
    return fname.startswith(("proc_", "query_process")) or fname in (
        "getpriority", "setpriority", "net_connections")


def make_native(stub, platform):
    """Stub native module(s) for `platform`."""
    def build(fullname, names, posix=False):
        m = types.ModuleType(fullname)
        m.__file__ = "<stub %s>" % fullname
        m.version = 700

        def make(fname):
            def f(*args, **kw):
                k = seams.cur()
                pid = args[0] if args and isinstance(args[0], int) and \
                    not isinstance(args[0], bool) else None
                c = k.ctxs[k.cur_thread]
                idx = c.acc
                k._acc("native:" + fname, args[0] if args else None,
                       pid if pid in k.procs or pid == PID else None, True)
                if stub.armed and c.inop:
                    stub.calls.append((idx, fname))
                    flt = stub.faults.get(idx)
                    if flt is not None and len(stub.faults) > 1 and (
                            pid is None or not procnat_name(fname)):
                        # a fault of a multi-fault plan whose index (taken
                        # from the fault-free dry run) lands on a system-wide
                        # call (or on a helper that cannot fail that way,
                        # like check_pid_range) because an earlier fault
                        # changed the path: the world changes now, but only
                        # the per-process calls that single faults are
                        # enumerated over answer a per-process errno
                        apply_fault_world(k, flt)
                        k.stat_inc("fault_landed_on_system_wide_call")
                        flt = None
                    if flt is not None:
                        apply_fault_world(k, flt)
                        e = make_error(flt["errno"], flt.get("winerror"))
                        stub.injected = e
                        k.stat_inc("fault_" + errno.errorcode.get(
                            flt["errno"], str(flt["errno"])))
                        raise e
                # natural behaviour for absent pids
                if pid is not None and fname.startswith(("proc_", "query_"))\
                        and pid not in k.procs:
                    raise make_error(errno.ESRCH, 87)
                if fname in ("getpriority", "setpriority") and \
                        pid not in k.procs and pid != 0:
                    raise make_error(errno.ESRCH)
                if fname == "proc_cmdline" and kw.get("use_peb") is False \
                        and getattr(stub, "win_old", False):
                    raise RuntimeError("requires Windows 8.1+")
                return default_result(stub, k, fname, args)
            f.__name__ = fname
            return f

        for n in names:
            if n in getattr(stub, "native_missing", ()):
                # a build of the extension without this optional interface
                continue
            setattr(m, n, make(n))

        def __getattr__(name):
            if name.isupper() or (name[:1].isupper() and "_" in name):
                return stub.const(name)
            if name in ("TimeoutExpired", "TimeoutAbandoned"):
                cls = type(name, (Exception,), {})
                setattr(m, name, cls)
                return cls
            raise AttributeError(name)

        m.__getattr__ = __getattr__
        return m

    mods = {}
    short = NATIVE_NAME[platform]
    mods["psutil." + short] = build("psutil." + short, FUNCS[platform])
    if platform != "win32":
        px = build("psutil._psutil_posix", POSIX_FUNCS, posix=True)
        px.AF_LINK = 18
        if platform.startswith("freebsd"):
            for i, n in enumerate(("RLIMIT_AS", "RLIMIT_CORE", "RLIMIT_CPU",
                                   "RLIMIT_DATA", "RLIMIT_FSIZE",
                                   "RLIMIT_MEMLOCK", "RLIMIT_NOFILE",
                                   "RLIMIT_NPROC", "RLIMIT_RSS",
                                   "RLIMIT_STACK", "RLIMIT_SWAP",
                                   "RLIMIT_SBSIZE", "RLIMIT_NPTS")):
                setattr(px, n, i)
            px.RLIM_INFINITY = 2 ** 63 - 1
        mods["psutil._psutil_posix"] = px
    return mods


def apply_fault_world(k, flt):
    then = flt.get("then")
    pid = flt.get("pid", PID)
    if then == "absent":
        k.apply_event({"ev": "vanish", "pid": pid})
        k.del_file("/proc/%d" % pid)
    elif then == "zombie":
        k.apply_event({"ev": "zombify", "pid": pid})
        for path in [p for p in k.files if p.startswith("/proc/%d/" % pid)
                     and not p.endswith("/psinfo")]:
            del k.files[path]
        k._dirs = None


# ---------------------------------------------------------------------------
# expected layouts (fault free), from the C slot orders

def R(stub, k, fname, n=None, pid=PID):
    if fname == "proc_basic_info":
        return record(stub, k, fname, pid, BASIC_INFO[stub.platform])
    if fname == "proc_io_counters" and stub.platform == "aix7":
        return tuple(slot(fname, i) for i in range(4))
    return record(stub, k, fname, pid, RECORDS[fname])


def expected_layout(stub, k, platform, method):
    """tuple of expected field values or None when not checked."""
    if platform in ("freebsd14", "openbsd7", "netbsd10"):
        o = R(stub, k, "proc_oneshot_info")
        return {
            "ppid": o[0], "uids": (o[2], o[3], o[4]),
            "gids": (o[5], o[6], o[7]), "create_time": o[9],
            "num_ctx_switches": (o[10], o[11]),
            "io_counters": (o[12], o[13], -1, -1),
            "cpu_times": (o[14], o[15], o[16], o[17]),
            "memory_info": (o[18], o[19], o[20], o[21], o[22]),
            "cpu_num": o[23], "name": o[24], "status": "sleeping",
        }.get(method)
    if platform == "darwin":
        a = R(stub, k, "proc_kinfo_oneshot")
        b = R(stub, k, "proc_pidtaskinfo_oneshot")
        return {
            "ppid": a[0], "uids": (a[1], a[2], a[3]),
            "gids": (a[4], a[5], a[6]), "create_time": a[8],
            "status": "sleeping", "name": a[10],
            "cpu_times": (b[0], b[1], 0.0, 0.0),
            "memory_info": (b[2], b[3], b[4], b[5]),
            "num_threads": b[6], "num_ctx_switches": (b[7], 0),
        }.get(method)
    if platform in ("sunos5", "aix7"):
        a = R(stub, k, "proc_basic_info")
        c = R(stub, k, "proc_cred")
        t = R(stub, k, "proc_cpu_times")
        x = R(stub, k, "proc_num_ctx_switches")
        d = {
            "ppid": a[0], "memory_info": (a[1] * 1024, a[2] * 1024),
            "create_time": a[3], "num_threads": a[5],
            "status": "running" if platform == "aix7" else "sleeping",
            "uids": (c[0], c[1], c[2]), "gids": (c[3], c[4], c[5]),
            "cpu_times": t, "num_ctx_switches": x,
        }
        if platform == "sunos5":
            d["nice"] = a[4]
        else:
            d["io_counters"] = R(stub, k, "proc_io_counters")
        return d.get(method)
    if platform == "win32":
        i = R(stub, k, "proc_info")
        m = R(stub, k, "proc_memory_info")
        t = R(stub, k, "proc_times")
        return {
            "num_threads": i[5], "num_ctx_switches": (i[1], 0),
            "memory_info": (m[2], m[7]) + tuple(m),
            "cpu_times": (t[0], t[1], 0.0, 0.0), "create_time": t[2],
            "io_counters": R(stub, k, "proc_io_counters"),
            "num_handles": 17,
        }.get(method)
    return None


def expected_fallback(stub, k, platform, method):
    """Windows: documented fallbacks on a permission error of the first
    native call (values come from proc_info slots)."""
    if platform == "sunos5":
        # proc_cred refused -> real/effective ids from psinfo, saved = None
        a = R(stub, k, "proc_basic_info")
        return {"uids": (a[8], a[9], None),
                "gids": (a[10], a[11], None)}.get(method)
    if platform != "win32":
        return None
    i = R(stub, k, "proc_info")
    return {
        "memory_info": (i[14], i[19]) + tuple(i[12:22]),
        "io_counters": tuple(i[6:12]),
        "cpu_times": (i[2], i[3], 0.0, 0.0),
        "num_handles": i[0],
    }.get(method)


METHODS = [
    "name", "exe", "cmdline", "environ", "ppid", "cwd", "uids", "gids",
    "terminal", "memory_info", "memory_full_info", "cpu_times",
    "create_time", "num_ctx_switches", "num_threads", "open_files",
    "net_connections", "num_fds", "nice", "nice_set", "status", "threads",
    "io_counters", "cpu_num", "cpu_affinity", "cpu_affinity_set",
    "memory_maps", "rlimit", "rlimit_set", "ionice", "ionice_set",
    "num_handles", "username", "suspend", "resume", "kill", "terminate",
    "send_signal", "wait0", "is_running", "as_dict_some",
    # the same getters inside an explicit oneshot() block, in two fixed
    # orders (as_dict() walks a set: its order follows the hash seed)
    "oneshot_fwd", "oneshot_rev",
]
SKIP = {
    # methods that shell out / use the real PATH (DESIGN 9/C20: uncovered)
    "aix7": {"open_files"},
    "openbsd7": {"exe"},
}


def call_method(psutil, p, m):
    if m == "nice_set":
        return p.nice(5 if psutil.POSIX else psutil.NORMAL_PRIORITY_CLASS)
    if m == "cpu_affinity_set":
        return p.cpu_affinity([0])
    if m == "rlimit":
        return p.rlimit(psutil.RLIMIT_NOFILE)
    if m == "rlimit_set":
        return p.rlimit(psutil.RLIMIT_NOFILE, (10, 20))
    if m == "ionice_set":
        return p.ionice(psutil.IOPRIO_NORMAL)
    if m == "send_signal":
        return p.send_signal(15)
    if m == "wait0":
        try:
            return p.wait(0)
        except psutil.TimeoutExpired:
            return "timeout"
    if m == "memory_maps":
        return p.memory_maps(grouped=False)
    if m == "as_dict_some":
        return p.as_dict(attrs=["name", "ppid", "cpu_times", "status"],
                         ad_value="<ad>")
    if m in ("oneshot_fwd", "oneshot_rev"):
        names = ["name", "ppid", "cpu_times", "status", "memory_info"]
        if m == "oneshot_rev":
            names.reverse()
        with p.oneshot():
            return [repr(getattr(p, n)()) for n in names]
    return getattr(p, m)()


def available(psutil, m):
    base = {"nice_set": "nice", "cpu_affinity_set": "cpu_affinity",
            "rlimit_set": "rlimit", "ionice_set": "ionice", "wait0": "wait",
            "as_dict_some": "as_dict", "oneshot_fwd": "oneshot",
            "oneshot_rev": "oneshot"}.get(m, m)
    return hasattr(psutil.Process, base)


class Foreign(EngineBase):
    name = "foreign"
    SHRINK_LISTS = [("faults",)]

    def boot_config(self, rng):
        b = {"platform": rng.choice(PLATFORMS)}
        if b["platform"] == "win32" and rng.random() < 0.5:
            b["win_old"] = True
        if b["platform"] == "aix7" and rng.random() < 0.5:
            b["native_missing"] = rng.choice([
                ["net_io_counters"], ["proc_io_counters", "proc_threads"]])
        return b

    def boot_config_for(self, b):
        boots = [{"platform": p_} for p_ in PLATFORMS] + [
            {"platform": "win32", "win_old": True},
            # AIX levels whose libperfstat lacks one interface or another
            # (the extension compiles each of them conditionally)
            {"platform": "aix7", "native_missing": ["net_io_counters"]},
            {"platform": "aix7", "native_missing": ["proc_io_counters",
                                                    "proc_threads"]}]
        return dict(boots[b % len(boots)])

    def world(self, platform, pidkind, state):
        pid = {"ordinary": PID, "zero": 0, "low": LOWPID.get(platform, 3)}[
            pidkind]
        procs = [{"pid": pid, "ppid": 1, "comm": "tgt",
                  "zombie": state == "zombie"}]
        if pid != 0 and platform in ("freebsd14", "netbsd10", "sunos5",
                                     "darwin", "openbsd7", "aix7"):
            procs.append({"pid": 0, "ppid": 0, "comm": "kernel"})
        files = {}
        if platform in ("sunos5", "aix7", "netbsd10"):
            for p in procs:
                d = "/proc/%d" % p["pid"]
                files[d + "/psinfo"] = "x"
                if not p.get("zombie"):
                    files[d + "/path/a.out"] = {"t": "l", "target": "/bin/x"}
                    files[d + "/path/cwd"] = {"t": "l", "target": "/cwd"}
                    files[d + "/cwd"] = {"t": "l", "target": "/cwd/"}
                    files[d + "/exe"] = {"t": "l", "target": "/bin/x"}
                    files[d + "/path/0"] = {"t": "l", "target": "/dev/pts/0"}
                    files[d + "/fd/0"] = "x"
                    files[d + "/fd/1"] = "x"
                    files[d + "/lwp/1/lwpsinfo"] = "x"
                    files[d + "/lwp/2/lwpsinfo"] = "x"
                    files[d + "/lwp/3/lwpsinfo"] = "x"
            files["/bin/x"] = {"t": "f", "data": "x", "mode": 0o755}
        return {"procs": procs, "files": files, "procfs_flavor": "static",
                "self_pid": 1000, "if_addrs": [
                    ["eth0", 2, "10.0.0.5", "255.255.255.0", None, None],
                    # multi-homed: same netmask, another network
                    ["eth0", 2, "192.168.7.9", "255.255.255.0", None, None],
                    ["eth1", 2, "172.16.200.3", "255.255.0.0", None, None],
                    # the Windows native layer reports no netmask for IPv6
                    ["eth0", 10, "fe80::1", None if platform == "win32"
                     else "ffff:ffff:ffff:ffff::", None, None],
                    ["eth0", 18 if platform != "win32" else -1,
                     "aa:bb:cc" if platform != "win32" else "aa-bb-cc",
                     None, None, None],
                    # hardware addresses longer than six octets (tunnels,
                    # EUI-64, IP-over-InfiniBand) pass through untouched
                    ["eth1", 18 if platform != "win32" else -1,
                     (":" if platform != "win32" else "-").join(
                         ["00", "11", "22", "33", "44", "55", "66", "77"]),
                     None, None, None],
                    ["ib0", 18 if platform != "win32" else -1,
                     (":" if platform != "win32" else "-").join(
                         "%02x" % i for i in range(20)),
                     None, None, None]]}, pid

    # ------------------------------------------------------------------
    def make_kernel(self, boot, world):
        cfg = dict(world or {})
        cfg.setdefault("procfs_flavor", "static")
        cfg["max_acc"] = 20000
        cfg["kill_zombie_esrch"] = boot["platform"].startswith("openbsd")
        return K.SimKernel(cfg)

    def import_psutil(self, scratch, kernel, boot):
        platform = boot["platform"]
        self.stub = Stub(platform)
        self.stub.native_missing = tuple(boot.get("native_missing") or ())
        if platform == "win32":
            # Windows 7 (6.1) or 10: some native fallbacks only exist from
            # 8.1 (6.3) on
            self.stub.win_old = bool(boot.get("win_old"))
            self.stub.consts["WINDOWS_8_1"] = 0x0603
            self.stub.consts["WINVER"] = 0x0601 if self.stub.win_old \
                else 0x0A00
        sysm = types.ModuleType("sys")
        import sys as real_sys
        sysm.__dict__.update({kk: vv for kk, vv in real_sys.__dict__.items()
                              if not kk.startswith("__")})
        sysm.platform = platform
        osm = seams.make_os()
        sigm = types.ModuleType("signal")
        import signal as real_signal
        sigm.__dict__.update({kk: vv for kk, vv in
                              real_signal.__dict__.items()
                              if not kk.startswith("__")})
        if platform == "win32":
            osm.name = "nt"
            osm.sep = "\\"
            osm.path = seams.make_os_path(ntpath)
            sigm.CTRL_C_EVENT = 0
            sigm.CTRL_BREAK_EVENT = 1
            sysm.getwindowsversion = lambda: (10, 0, 19045)
        native = make_native(self.stub, platform)
        extra = {"sys": sysm, "os": osm, "signal": sigm}
        return seams.import_psutil(scratch, kernel, extra_modules=extra,
                                   native=native)

    # ------------------------------------------------------------------
    def execute(self, W, plan):
        psutil = W.psutil
        platform = W.boot["platform"]
        stub = self.stub
        world, pid = self.world(platform, plan["pidkind"], plan["state"])
        k = self.make_kernel(W.boot, world)
        self.install(k)
        viol = []
        method = plan["method"]
        tagbase = [platform]

        def V(clause, tags, msg):
            viol.append({"clause": clause, "tags": sorted(set(tagbase +
                                                              list(tags))),
                         "api": method, "msg": "[%s] %s" % (platform, msg)})

        res = {"violations": viol}
        if plan.get("special") == "frontend":
            return self.check_frontend(W, psutil, k, platform, res, V)
        stub.armed = False
        stub.faults = {}
        stub.calls = []
        stub.injected = None
        k.begin_op(0)
        try:
            p = psutil.Process(pid)
            if plan.get("cached_name"):
                try:
                    p.name()
                except psutil.Error:
                    pass
        except BaseException as e:  # noqa: BLE001
            if is_harness_exc(e):
                raise
            res["setup_failed"] = repr(e)
            res["digest"] = k.digest.hexdigest()
            k.end_op()
            return res
        k.end_op()
        cached = p._name
        faults = plan.get("faults") or []
        for f in faults:
            stub.faults[f["k"]] = dict(f, pid=pid)
            if f.get("os"):
                k.schedule_fault(0, 1, f["k"], {"kind": "os_" + str(
                    f["errno"]), "errno": f["errno"]})
                if f.get("then"):
                    k.schedule_at_access(0, 1, f["k"], {
                        "ev": "vanish" if f["then"] == "absent"
                        else "zombify", "pid": pid})
        stub.armed = True
        acc0 = len(k.acclog)
        k.begin_op(1)
        try:
            v = call_method(psutil, p, method)
            if method == "memory_maps" and v is not None:
                v = list(v)
            out = ("value", v)
        except BaseException as e:  # noqa: BLE001
            if is_harness_exc(e):
                raise
            out = ("exc", e)
        k.end_op()
        stub.armed = False
        acc = [a for a in k.acclog[acc0:] if a[2] >= 0]
        res["acc"] = [[a[2], a[3], str(a[4])[:60]] for a in acc]
        nacc = len(acc)
        fired = [f for f in faults if f["k"] < nacc]
        res["fired"] = len(fired) == len(faults)
        final = k.procs.get(pid)
        state_end = "absent" if final is None else (
            "zombie" if final.zombie else "live")
        res["outcome"] = out[0] if out[0] == "value" else exc_class(
            psutil, out[1])
        res["digest"] = k.digest.hexdigest()
        res["stats"] = dict(k.stats)
        ftags = []
        for f in fired:
            ftags.append(errno.errorcode.get(f["errno"], str(f["errno"])) + (
                "/w%d" % f["winerror"] if f.get("winerror") else ""))
            a = acc[f["k"]]
            ftags.append("at=" + a[3])
        classes = set()
        for f in fired:
            classes.add(self.fault_class(platform, f))
        if out[0] == "exc":
            e = out[1]
            cls = exc_class(psutil, e)
            if cls in ("NSP", "ZP", "AD"):
                if getattr(e, "pid", None) != pid:
                    V("C20.no_bare", ftags + [cls, "pid"], "%s raised %r: "
                      "wrong pid" % (method, e))
                if cached is not None and getattr(e, "name", None) != cached \
                        and method != "name":
                    V("C20.no_bare", ftags + [cls, "name"], "%s raised %r: "
                      "cached name %r not carried" % (method, e, cached))
                probe_faulted = any(f.get("probe") for f in fired)
                if probe_faulted:
                    # the layer could not find out whether the pid is a
                    # zombie / still there: any of the three psutil errors
                    # is an acceptable translation, only leaks are judged
                    pass
                elif cls == "NSP" and state_end != "absent":
                    if not self.special_ok(platform, method, pid, cls):
                        V("C20.cause", ftags + [cls, state_end] + (
                            ["reused_msg"] if "reused" in str(getattr(
                                e, "msg", "")) else []),
                          "%s raised %r but the pid is %s" % (
                              method, e, state_end))
                if cls == "ZP" and state_end != "zombie" and \
                        not probe_faulted:
                    V("C20.cause", ftags + [cls, state_end], "%s raised %r "
                      "but the pid is %s" % (method, e, state_end))
                if cls == "AD" and len(fired) == 1 and \
                        fired[0]["k"] == 0 and "perm" in classes and \
                        state_end == "live" and not fired[0].get("os") and \
                        expected_fallback(stub, k, platform, method) \
                        is not None:
                    V("C20.layout", ftags + ["fallback", "AD"],
                      "%s raised %r although the layer documents a fallback "
                      "for a refused first native call (expected %r)" % (
                          method, e, expected_fallback(stub, k, platform,
                                                       method)))
                if cls == "AD" and "perm" not in classes and \
                        not self.special_ok(platform, method, pid, cls,
                                            classes):
                    V("C20.cause", ftags + [cls, "noperm"], "%s raised %r "
                      "but no permission failure was injected" % (method, e))
                if cls in ("NSP", "ZP") and "nsp" not in classes and \
                        state_end == "live":
                    pass
            elif isinstance(e, (ProcessLookupError, PermissionError)) or (
                    isinstance(e, FileNotFoundError) and platform in (
                        "sunos5", "aix7")):
                V("C20.no_bare", ftags + [type(e).__name__], "%s leaked a "
                  "bare %r" % (method, e))
            elif isinstance(e, OSError) and getattr(e, "winerror", 0) in (
                    5, 1314) and platform == "win32":
                V("C20.no_bare", ftags + ["winerror"], "%s leaked %r "
                  "(winerror %s)" % (method, e, e.winerror))
            elif classes == {"other"} and len(fired) == 1 and pid == 0 and \
                    state_end == "live" and platform.startswith(
                        ("freebsd", "openbsd", "netbsd", "sunos")) and \
                    isinstance(e, OSError):
                # the one documented exception: an otherwise unexplained OS
                # error on the existing PID 0 is reported as AccessDenied
                V("C20.pid0_exception", ftags + [type(e).__name__],
                  "%s on the existing PID 0 let %r through instead of "
                  "raising AccessDenied" % (method, e))
            elif classes == {"other"} and len(fired) == 1:
                inj = stub.injected
                if inj is None:
                    inj = OSError(fired[0]["errno"], "injected")
                if e is not inj and not (
                        isinstance(e, OSError) and
                        getattr(e, "errno", None) == inj.errno):
                    V("C20.passthrough", ftags + [type(e).__name__],
                      "%s turned the injected %r into %r" % (method, inj, e))
            elif len(fired) == 2 and fired[1].get("probe") and \
                    isinstance(e, OSError):
                V("C20.no_bare", ftags + [type(e).__name__, "probe_fault"],
                  "%s: the native call failed with 'no such process' and "
                  "the layer's own existence/zombie probe failed as well: "
                  "%r escaped instead of NoSuchProcess/ZombieProcess" % (
                      method, e))
            elif not fired and not isinstance(e, (NotImplementedError,)):
                V("C20.fault_free", [type(e).__name__], "%s raised %r "
                  "without any fault" % (method, e))
            elif fired and not isinstance(e, OSError):
                V("C20.no_bare", ftags + [type(e).__name__], "%s raised %r"
                  % (method, e))
        else:
            if state_end == "absent" and method not in (
                    "is_running", "wait0") and any(
                    self.fault_class(platform, f) == "nsp" and
                    f.get("then") == "absent" for f in fired):
                # the native layer said "no such process" and the process
                # is gone for good: a value (e.g. a truncated list) hides it
                V("C20.no_bare", ftags + ["swallowed", "absent"],
                  "%s returned %r although a native call failed with 'no "
                  "such process' and the process is gone" % (
                      method, out[1]))
            if not faults and plan["state"] == "live" and \
                    plan["pidkind"] == "ordinary":
                exp = expected_layout(stub, k, platform, method)
                if exp is not None:
                    got = out[1]
                    gv = tuple(got) if isinstance(got, tuple) else got
                    if gv != exp:
                        V("C20.layout", ["layout"], "%s -> %r, native slots "
                          "(C order) say %r" % (method, got, exp))
            elif len(fired) == 1 and fired[0]["k"] == 0 and \
                    "perm" in classes and state_end == "live":
                exp = expected_fallback(stub, k, platform, method)
                if exp is not None:
                    got = out[1]
                    gv = tuple(got) if isinstance(got, tuple) else got
                    if gv != exp:
                        V("C20.layout", ftags + ["fallback"], "%s fallback "
                          "-> %r, proc_info slots say %r" % (method, got,
                                                             exp))
        if platform in ("aix7", "sunos5") and method == "net_connections" \
                and not faults and out[0] == "value":
            # filled from the records of THIS pid only (descriptor 100+pid)
            fds_ = sorted(c.fd for c in out[1])
            if fds_ != [100 + pid]:
                V("C20.layout", ["net_connections", "pid=%d" % pid],
                  "net_connections of pid %d -> descriptors %r, the native "
                  "layer holds [%d] for it" % (pid, fds_, 100 + pid))
        if platform == "netbsd10" and method == "cmdline" and \
                len(fired) == 1 and fired[0]["errno"] == errno.EINVAL and \
                fired[0].get("then"):
            want = "ZP" if fired[0]["then"] == "zombie" else "NSP"
            if res["outcome"] != want:
                V("C20.cause", ftags + ["netbsd_cmdline_einval", state_end],
                  "cmdline: the args sysctl answered EINVAL and the pid is "
                  "%s: expected %s, got %s" % (
                      state_end, want, res["outcome"] if out[0] == "exc"
                      else repr(out[1])))
        if platform == "win32" and len(fired) == 2 and \
                fired[0].get("winerror") == 299 and out[0] == "exc":
            second = fired[1]
            e = out[1]
            if second["errno"] == errno.EINVAL and not (
                    isinstance(e, OSError) and not isinstance(
                        e, psutil.Error) and e.errno == errno.EINVAL):
                V("C20.passthrough", ftags + ["after_partial_copy",
                                              type(e).__name__],
                  "%s: ERROR_PARTIAL_COPY, then the retry failed with an "
                  "unrelated error: %r instead of that error" % (method, e))
        # the same object afterwards: while the PID is still listed (as a
        # zombie) nothing may claim that it is gone
        if state_end == "zombie" and res["outcome"] != "NSP" and not any(
                self.fault_class(platform, f) == "nsp" and not f.get("then")
                for f in fired):
            stub.faults.clear()
            for i, g in enumerate(("is_running", "ppid", "send_signal0",
                                   "is_running")):
                k.begin_op(2 + i)
                try:
                    o = ("value", p.send_signal(0) if g == "send_signal0"
                         else getattr(p, g)())
                except BaseException as e:  # noqa: BLE001
                    if is_harness_exc(e):
                        raise
                    o = ("exc", e)
                k.end_op()
                if o[0] == "exc" and exc_class(psutil, o[1]) == "NSP":
                    V("C20.cause", ["NSP", "zombie", "later_call", g],
                      "after %s, %s() on the same object raised %r but the "
                      "pid is still listed as a zombie" % (method, g, o[1]))
                elif g == "is_running" and o == ("value", False):
                    V("C20.cause", ["NSP", "zombie", "later_call", g],
                      "after %s, is_running() on the same object is False "
                      "but the pid is still listed as a zombie" % method)
        return res

    @staticmethod
    def fault_class(platform, f):
        if f["errno"] in (errno.EPERM, errno.EACCES) or \
                f.get("winerror") in (5, 1314):
            return "perm"
        if f["errno"] == errno.ESRCH or (
                f["errno"] == errno.ENOENT and (f.get("os") or platform in (
                    "sunos5", "aix7"))):
            return "nsp"
        return "other"

    @staticmethod
    def special_ok(platform, method, pid, cls, classes=()):
        """Deliberate special cases written in the sources."""
        if cls == "AD":
            if pid == 0 and (platform.startswith(("freebsd", "openbsd",
                                                  "netbsd", "sunos"))):
                return True      # unexplained OSError on existing PID 0
            if platform == "sunos5" and pid in (2, 3) and \
                    method == "nice_set":
                return True
            if platform == "win32" and pid in (0, 4) and method in (
                    "cwd", "as_dict_some", "oneshot_fwd", "oneshot_rev"):
                return True
            if platform == "win32" and "partial" in classes:
                return True
            if platform == "win32" and "other" in classes:
                return False
        return False

    def check_frontend(self, W, psutil, k, platform, res, V):
        k.begin_op(0)
        try:
            addrs = psutil.net_if_addrs()
        except BaseException as e:  # noqa: BLE001
            if is_harness_exc(e):
                raise
            V("C20.frontend", [type(e).__name__], "net_if_addrs raised %r" %
              (e,))
            return res
        k.end_op()
        sep = "-" if platform == "win32" else ":"
        raw_link = {r[0]: r[2] for r in (k.cfg.get("if_addrs") or [])
                    if r[1] in (18, -1)}
        for nic in ("eth0", "eth1", "ib0"):
            for nt in addrs.get(nic, []):
                if nt.family != psutil.AF_LINK:
                    continue
                raw = raw_link[nic].split(sep)
                want = sep.join(raw + ["00"] * max(0, 6 - len(raw)))
                if nt.address != want:
                    V("C20.frontend", ["mac_padding"], "%s: hardware "
                      "address %r reported as %r, expected %r (padded to "
                      "six groups when shorter, untouched otherwise)" % (
                          nic, raw_link[nic], nt.address, want))
        for nt in addrs.get("eth0", []) + addrs.get("eth1", []):
            if nt.family == psutil.AF_LINK:
                pass
            elif platform == "win32" and nt.netmask and \
                    nt.family == socket.AF_INET:
                import ipaddress
                exp = str(ipaddress.IPv4Network("%s/%s" % (
                    nt.address, nt.netmask), strict=False).broadcast_address)
                if nt.broadcast != exp:
                    V("C20.frontend", ["win_broadcast", "ipv4"],
                      "%s/%s -> broadcast %r, expected %r" % (
                          nt.address, nt.netmask, nt.broadcast, exp))

        # documented names
        want = ["cpu_count", "cpu_times", "virtual_memory", "Process",
                "pids", "net_if_addrs", "AF_LINK", "getloadavg"]
        if platform in ("darwin", "win32", "freebsd14", "openbsd7"):
            want.append("cpu_freq")
        if platform.startswith("freebsd"):
            want += ["sensors_temperatures", "sensors_battery",
                     "RLIM_INFINITY", "RLIMIT_AS", "RLIMIT_CORE",
                     "RLIMIT_CPU", "RLIMIT_DATA", "RLIMIT_FSIZE",
                     "RLIMIT_MEMLOCK", "RLIMIT_NOFILE", "RLIMIT_NPROC",
                     "RLIMIT_RSS", "RLIMIT_STACK",
                     # documented as FreeBSD specific
                     "RLIMIT_SWAP", "RLIMIT_SBSIZE", "RLIMIT_NPTS"]
        if platform == "win32":
            want += ["sensors_battery", "win_service_iter", "win_service_get",
                     "REALTIME_PRIORITY_CLASS", "HIGH_PRIORITY_CLASS",
                     "ABOVE_NORMAL_PRIORITY_CLASS", "NORMAL_PRIORITY_CLASS",
                     "IDLE_PRIORITY_CLASS", "BELOW_NORMAL_PRIORITY_CLASS",
                     "IOPRIO_VERYLOW", "IOPRIO_LOW", "IOPRIO_NORMAL",
                     "IOPRIO_HIGH", "CONN_DELETE_TCB"]
        if platform == "sunos5":
            want += ["CONN_IDLE", "CONN_BOUND", "PROCFS_PATH"]
        if platform == "aix7":
            want += ["PROCFS_PATH"]
        missing = [n for n in want if not hasattr(psutil, n)]
        not_all = [n for n in want if hasattr(psutil, n) and
                   n not in psutil.__all__ and n not in (
                       "PROCFS_PATH", "getloadavg", "CONN_IDLE",
                       "CONN_BOUND")]
        if missing or not_all:
            V("C20.names", ["missing"] if missing else ["not_in_all"],
              "names promised for this platform: missing %r, not in __all__ "
              "%r" % (missing, not_all))
        pm = {"uids": psutil.POSIX, "gids": psutil.POSIX,
              "terminal": psutil.POSIX, "num_fds": psutil.POSIX,
              "ionice": platform == "win32", "num_handles":
              platform == "win32", "rlimit": platform.startswith("freebsd"),
              "cpu_affinity": platform in ("win32", "freebsd14"),
              "cpu_num": platform in ("freebsd14", "sunos5"),
              "io_counters": platform not in ("darwin", "sunos5") and
              "proc_io_counters" not in self.stub.native_missing,
              "environ": True,
              "threads": "proc_threads" not in self.stub.native_missing,
              "memory_maps": platform in ("win32", "freebsd14", "sunos5")}
        bad = [m for m, w in pm.items()
               if w and not hasattr(psutil.Process, m)]
        if bad:
            V("C20.names", ["process_methods"], "Process methods promised "
              "for this platform are missing: %r" % (bad,))
        res["outcome"] = "frontend"
        res["digest"] = k.digest.hexdigest()
        return res

    # ------------------------------------------------------------------
    def run_unit(self, W, unit_seed, tier):
        """One unit = one platform (the batch's) x every method, fully
        enumerated single faults."""
        psutil = W.psutil
        platform = W.boot["platform"]
        u = {"evals": 0, "keys": set(), "stats": {}, "violations": [],
             "harness_errors": [], "timeouts": 0, "digest_checks": 0}
        rng = self.rng("fr", unit_seed)
        fplan = {"special": "frontend", "method": "frontend",
                 "pidkind": "ordinary", "state": "live", "faults": []}
        r = W.execute_forked(fplan)
        u["evals"] += 1
        self._absorb(u, fplan, r, ("frontend",))
        combos = [("ordinary", "live", False), ("ordinary", "zombie", False),
                  ("zero", "live", False), ("low", "live", False),
                  ("ordinary", "live", True)]
        sample = None
        for m in METHODS:
            if not available(psutil, m) or m in SKIP.get(platform, ()):
                continue
            for (pidkind, state, cached) in combos:
                if state == "zombie" and platform == "win32":
                    continue
                if pidkind == "zero" and m in ("kill", "terminate",
                                               "send_signal", "suspend",
                                               "resume", "wait0"):
                    continue    # refused by design (C01), not this property
                if pidkind == "zero" and platform in ("win32",) and \
                        m in ("kill", "terminate", "send_signal", "suspend",
                              "resume"):
                    pass
                base = {"method": m, "pidkind": pidkind, "state": state,
                        "cached_name": cached, "faults": []}
                dry = W.execute_forked(base)
                u["evals"] += 1
                if not self._absorb(u, base, dry, (m, pidkind, state,
                                                   "nofault")):
                    continue
                if "setup_failed" in dry:
                    continue
                if dry.get("outcome") not in ("value",):
                    # the fault-free call already fails (e.g. a zombie): any
                    # further fault would only land on psutil's own zombie /
                    # existence probes, which is not what the statement
                    # quantifies over
                    continue
                acc = dry.get("acc") or []
                if pidkind in ("zero", "low") and tier == "quick" and \
                        rng.random() < 0.5:
                    continue
                for (kk, kind, arg) in acc:
                    native = kind.startswith("native:")
                    if native and not (
                            kind[7:].startswith(("proc_", "query_process"))
                            or kind[7:] in ("getpriority", "setpriority",
                                            "net_connections")):
                        continue
                    if not native and platform not in ("sunos5", "aix7",
                                                       "netbsd10"):
                        continue
                    if not native and kind not in ("open", "read", "stat",
                                                   "lstat", "readlink",
                                                   "listdir"):
                        continue
                    if not native and "/proc/" not in arg:
                        continue
                    for flt in self.faults_for(platform, native):
                        if flt.get("then") == "zombie" and \
                                platform == "win32":
                            continue
                        if pidkind == "zero" and flt.get("then"):
                            continue
                        f = dict(flt, k=kk)
                        if not native:
                            f["os"] = True
                        plan = dict(base, faults=[f])
                        r = W.execute_forked(plan)
                        u["evals"] += 1
                        self._absorb(u, plan, r, (
                            m, pidkind, state, kind,
                            errno.errorcode.get(f["errno"], "?") +
                            ("w%s" % f.get("winerror", "")),
                            str(f.get("then"))))
                        if sample is None and isinstance(r, dict) and \
                                r.get("outcome") == "ZP":
                            sample = {"platform": platform, "method": m,
                                      "fault": f, "outcome": "ZP"}
                        if u["evals"] % 211 == 0:
                            r2 = W.execute_forked(plan)
                            u["digest_checks"] += 1
                            if r2.get("digest") != r.get("digest"):
                                u["harness_errors"].append(
                                    "digest mismatch (%s %s)" % (platform, m))
                # the translator's own probe fails too: after a 'no such
                # process' failure at call k the layer asks the OS whether
                # the pid still exists / is a zombie (call k+1, not part of
                # the fault-free run); that call is refused or fails
                if pidkind == "ordinary" and state == "live" and not cached:
                    for (kk, kind, arg) in acc:
                        if not kind.startswith("native:") or not (
                                kind[7:].startswith(("proc_",
                                                     "query_process")) or
                                kind[7:] in ("getpriority", "setpriority")):
                            continue
                        if (kk + len(m)) % 2 and tier == "quick":
                            continue
                        for then in ("absent", "zombie"):
                            if then == "zombie" and platform == "win32":
                                continue
                            for e2 in (errno.EPERM, errno.EIO):
                                plan = dict(base, faults=[
                                    {"k": kk, "errno": errno.ESRCH,
                                     "then": then},
                                    {"k": kk + 1, "errno": e2,
                                     "winerror": 5 if platform == "win32"
                                     and e2 == errno.EPERM else None,
                                     "probe": True}])
                                r = W.execute_forked(plan)
                                u["evals"] += 1
                                self._absorb(u, plan, r, (
                                    m, "probe_fault", kind, then,
                                    errno.errorcode[e2]))
                # platform special cases written in the sources
                if pidkind == "ordinary" and state == "live" and not cached:
                    extra = []
                    for (kk, kind, arg) in acc:
                        if platform == "netbsd10" and m == "cmdline" and \
                                kind == "native:proc_cmdline":
                            # NetBSD answers EINVAL for a zombie's argv
                            for then in ("zombie", "absent"):
                                extra.append([{"k": kk, "errno": errno.EINVAL,
                                               "then": then}])
                        if platform == "win32" and m in (
                                "cmdline", "environ", "cwd") and \
                                kind.startswith("native:proc_"):
                            # ERROR_PARTIAL_COPY is retried; what the retry
                            # meets decides
                            extra.append([
                                {"k": kk, "errno": errno.EIO,
                                 "winerror": 299},
                                {"k": kk + 1, "errno": errno.ESRCH,
                                 "then": "absent"}])
                            extra.append([
                                {"k": kk, "errno": errno.EIO,
                                 "winerror": 299},
                                {"k": kk + 1, "errno": errno.EINVAL,
                                 "winerror": 87}])
                    for fl in extra:
                        plan = dict(base, faults=fl)
                        r = W.execute_forked(plan)
                        u["evals"] += 1
                        self._absorb(u, plan, r, (m, "special", str(
                            [(f_["errno"], f_.get("then")) for f_ in fl])))
                # sampled double faults (thorough)
                if tier == "thorough" and len(acc) >= 2:
                    for _ in range(2):
                        i, j = sorted(rng.sample(range(len(acc)), 2))

                        def procnat(a_):
                            return a_[1].startswith("native:") and \
                                procnat_name(a_[1][7:])
                        if not (procnat(acc[i]) and procnat(acc[j])):
                            continue
                        if pidkind == "zero":
                            continue
                        plan = dict(base, faults=[
                            {"k": i, "errno": errno.EACCES, "winerror": 5},
                            {"k": j, "errno": errno.ESRCH, "then": "absent"}])
                        r = W.execute_forked(plan)
                        u["evals"] += 1
                        self._absorb(u, plan, r, (m, pidkind, state,
                                                  "double"))
        u["sample"] = sample
        return u

    def faults_for(self, platform, native):
        out = []
        nsp = [errno.ESRCH]
        if platform in ("sunos5", "aix7") or not native:
            nsp.append(errno.ENOENT)
        for e in nsp:
            out.append({"errno": e, "then": "absent"})
            out.append({"errno": e, "then": "zombie"})
        for e in (errno.EPERM, errno.EACCES):
            w = 5 if platform == "win32" else None
            out.append({"errno": e, "winerror": w, "then": None})
            out.append({"errno": e, "winerror": w, "then": "zombie"})
        for e in (errno.EIO, errno.EINVAL):
            out.append({"errno": e, "winerror": 87 if platform == "win32"
                        else None, "then": None})
        if platform == "win32" and native:
            out.append({"errno": errno.EACCES, "winerror": 1314,
                        "then": None})
            out.append({"errno": errno.EIO, "winerror": 299, "then": None})
        return out

    def _absorb(self, u, plan, r, keybase):
        if not isinstance(r, dict) or r.get("timeout"):
            u["timeouts"] += 1
            u["harness_errors"].append("timeout %r" % (plan.get("method"),))
            return False
        if "harness_error" in r:
            u["harness_errors"].append("%s [%s] %s" % (
                r["harness_error"], plan.get("method"),
                r.get("tb", "")[-700:]))
            return False
        for kk, vv in (r.get("stats") or {}).items():
            u["stats"][kk] = u["stats"].get(kk, 0) + vv
        if r.get("fired", True):
            u["keys"].add("|".join(str(x) for x in keybase) + "|" +
                          str(r.get("outcome")))
        for v in r.get("violations") or []:
            u["violations"].append({"sig": list(sig_of(v)), "msg": v["msg"],
                                    "plan": plan})
        return True


Foreign.RULE = (
    "per platform identity (FreeBSD, OpenBSD, NetBSD, macOS, Solaris, AIX, "
    "Windows; one per batch, imported in a fresh interpreter under faked "
    "sys.platform/os.name over stub native modules): every Process method "
    "reachable through the public front end x pid kind {ordinary, 0, low} x "
    "{live, zombie} x cached name or not runs fault-free (layout compared "
    "with the C slot order), then once per (native or procfs call index) x "
    "errno {ESRCH, ENOENT, EPERM, EACCES, EIO, EINVAL; Windows winerror 5, "
    "1314, 299, 87} with the stub process table kept consistent (pid absent "
    "or zombie from that call on); distinct+non-trivial = (method, pid kind, "
    "state, call site, errno, world transition, outcome class) of runs whose "
    "fault fired")
Foreign.ASSUMPTIONS = [
    "the native layers are stubs: what is checked is the Python layers "
    "against the record order of the C sources, not the C code itself",
    "a 'no such process' errno is only injected together with the pid "
    "becoming absent or a listed zombie (Solaris/AIX infer 'zombie' from "
    "'error but pid exists')",
    "methods that shell out (Solaris pfiles for UNIX sockets, AIX "
    "procfiles) and OpenBSD exe() (shutil.which on the real PATH) are not "
    "simulated",
    "OpenBSD kill(2) is modelled the way psutil's own comments describe it: "
    "a signal sent to a zombie answers ESRCH, the probe kill(pid, 0) "
    "succeeds; it cannot be calibrated against a real OpenBSD kernel here",
]
Foreign.COMPONENTS = {
    "real": ["psutil/_psbsd.py", "psutil/_psosx.py", "psutil/_pssunos.py",
             "psutil/_psaix.py", "psutil/_pswindows.py",
             "psutil/__init__.py (platform-conditional front end)",
             "psutil/_common.py", "psutil/_psposix.py"],
    "stub": ["_psutil_bsd / _psutil_osx / _psutil_sunos / _psutil_aix / "
             "_psutil_windows / _psutil_posix (table-driven stub modules)",
             "sys.platform, os.name, os.path (ntpath on Windows), "
             "signal.CTRL_*", "procfs of Solaris/AIX/NetBSD (static VFS)",
             "process table (SimKernel)"],
}
Foreign.PROBES = ["fault_ESRCH", "fault_ENOENT", "fault_EPERM",
                  "fault_EACCES", "fault_EIO", "fault_EINVAL"]

ENGINE = Foreign()
