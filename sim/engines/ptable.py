"""ptable engine -- C01, C02, C04, C05: histories of spawn / exit / reap /
PID reuse (and clock steps) interleaved with psutil calls.

One plan = one world + a list of operations; kernel events are either
pseudo-operations (`{"op": "ev", ...}`, between two calls) or *inside* events
fired just before the n-th pid-related procfs access of a given operation.
Operations name handles and pids indirectly (index modulo what exists), so
every sub-sequence of a plan is executable (sound delta debugging).
"""

import json

from .base import EngineBase, exc_class, is_harness_exc
from .. import gen
from ..runner import sig_of

PROCFS = ("open", "read", "stat", "lstat", "readlink", "listdir", "access")
SIGNAL_METHODS = {"suspend": 19, "resume": 18, "terminate": 15, "kill": 9}
GETTER_POOL = ["name", "status", "ppid", "cmdline", "nice", "num_threads",
               "cpu_times", "uids", "create_time", "exe", "memory_info"]


class Handle:
    def __init__(self, obj, pid, inc, born_op, born_steps):
        self.obj = obj
        self.pid = pid
        self.inc = inc
        self.born_op = born_op
        self.born_steps = born_steps   # clock steps so far at creation
        self.seen_gone = False
        self.running_false = False
        self.hash0 = None
        self.cms = []
        self.blind = False   # built while /proc/<pid>/stat was unreadable


class PTable(EngineBase):
    name = "ptable"
    SHRINK_LISTS = [("ops",), ("inside",), ("world", "procs")]

    def boot_config(self, rng):
        b = EngineBase.boot_config(self, rng)
        b["has_io"] = True
        return b

    # ------------------------------------------------------------------
    # generation
    def gen_world(self, rng, prop):
        files = {}
        npool = rng.randrange(3, 9)
        lo = 2
        pool = list(range(lo, lo + npool))
        self_pid = 1000
        procs = []
        start = 300100
        live = rng.sample(pool, rng.randrange(1, len(pool) + 1))
        for pid in sorted(live):
            start += rng.randrange(1, 300)
            ppid = rng.choice([1, 1, self_pid] + [p for p in live if p < pid])
            pr = gen.gen_proc(rng, pid, ppid, files, rich=False, start=start)
            pr["is_child"] = (ppid == self_pid) and rng.random() < 0.5
            if rng.random() < 0.3:
                pr["threads"] = {str(pid): [pr["comm"], 0, 0],
                                 str(200 + pid): ["thr", 1, 2]}
            procs.append(pr)
        if prop == "C01" and rng.random() < 0.25:
            # a platform that lists PID 0: signalling it must be refused
            pr = gen.gen_proc(rng, 0, 0, files, rich=False, start=1)
            procs.insert(0, pr)
            pool = [0] + pool
        world = {"procs": procs, "files": files, "pool": pool,
                 "pid_lo": lo, "pid_hi": lo + npool - 1,
                 "root": rng.random() < 0.8,
                 "no_cap_sys_resource": rng.random() < 0.3,
                 "listdir_order": rng.choice(["sorted", "reversed", "o7"]),
                 "mono0": 50000.0 + rng.randrange(0, 500)}
        if prop == "C02" and rng.random() < 0.06:
            world["pidns_foreign"] = True
        if prop == "C02" and rng.random() < 0.12:
            world["wall_offset"] = rng.choice([0.25, 37.5, 1000.75, 86400.5])
        if prop == "C05":
            self._scramble_tree(rng, world)
        if prop == "C04":
            world["overlap"] = rng.random() < 0.3
        return world

    def _scramble_tree(self, rng, world):
        """C05: arbitrary parent links and start-time orderings."""
        procs = world["procs"]
        pids = [p["pid"] for p in procs]
        mode = rng.choice(["forest", "forest", "loops", "wild", "chain",
                           "bushy", "bushy"])
        if mode == "bushy" and len(procs) >= 3:
            # one parent with several children (and a grandchild)
            procs.sort(key=lambda p: p["starttime"])
            top = procs[0]["pid"]
            for j, p in enumerate(procs[1:]):
                p["ppid"] = top if j != 2 else procs[1]["pid"]
            world["bushy_top"] = world["pool"].index(top)
            return
        for i, p in enumerate(procs):
            if mode == "forest":
                continue
            if mode == "chain":
                p["ppid"] = pids[i - 1] if i else 1
            elif mode == "loops":
                r = rng.random()
                if r < 0.2:
                    p["ppid"] = p["pid"]
                elif r < 0.6:
                    p["ppid"] = rng.choice(pids)
            else:
                p["ppid"] = rng.choice(pids + [1, 0, 77, 1000])
        if mode in ("loops", "wild", "chain") and rng.random() < 0.6:
            # equal / inverted start times
            base = 300500
            for p in procs:
                p["starttime"] = base + rng.choice([0, 0, 1, -50, 100])

    def new_proc_ev(self, rng, pid, pool, kind="spawn"):
        files = {}
        pr = gen.gen_proc(rng, pid, rng.choice([1, 1000] + pool), files)
        pr.pop("starttime", None)
        ev = {"ev": kind}
        ev.update(pr)
        if kind == "reuse" and rng.random() < 0.2:
            ev["as_zombie"] = True
        ev["is_child"] = rng.random() < 0.3
        return ev

    def gen_event(self, rng, world, prop):
        pool = world["pool"]
        pid = rng.choice(pool)
        r = rng.random()
        if (prop == "C02" and r < 0.22) or (prop == "C05" and r < 0.05):
            # (C05: the tree does not depend on the wall clock either)
            delta = rng.choice([0.5, -0.5, 1.0, -1.0, 3600.0, -3600.0,
                                86400.0 * 3, -0.01, 0.01, 2.0, -2.0,
                                rng.randrange(-500, 500) / 100.0])
            if world.get("wall_offset", 1e9) < 1e6 and rng.random() < 0.6:
                # a board without RTC boots at the epoch and is set to the
                # real date later (the boot time changes magnitude)
                delta = 1.7e9 + rng.randrange(0, 10 ** 6) + rng.choice(
                    [0.0, 0.25, 0.5])
            return {"ev": "clock_step", "delta": delta}
        if r < 0.30:
            return self.new_proc_ev(rng, pid, pool, "reuse")
        if r < 0.45:
            return {"ev": "vanish", "pid": pid}
        if r < 0.55:
            return {"ev": "exit", "pid": pid, "reap": False,
                    "status": rng.choice([0, 256, 9, 15])}
        if r < 0.62:
            return {"ev": "reap", "pid": pid}
        if r < 0.75:
            return self.new_proc_ev(rng, pid, pool, "spawn")
        if r < 0.80 and prop in ("C04", "C01"):
            return {"ev": "thread_start", "pid": pid,
                    "tid": rng.choice(pool) + 300}
        if r < 0.9:
            return {"ev": "advance", "dt": rng.choice([0.01, 0.5, 3.0])}
        if prop in ("C01", "C02", "C04") and r < 0.94:
            # execve() / prctl(PR_SET_NAME): same process, another name
            return {"ev": "setattr", "pid": pid, "attrs": {
                "comm": rng.choice(gen.COMMS),
                "cmdline": "/bin/other\x00"}}
        if prop in ("C02", "C05") and r < 0.97:
            # exit + reap with /proc/<pid> lingering for a moment (every
            # file below it already ENOENT; issue 2418), gone soon after
            return {"ev": "halfgone", "pid": pid}
        return {"ev": "setattr", "pid": pid,
                "attrs": {"ppid": rng.choice(pool + [1])}}

    def gen_op(self, rng, world, prop, i):
        pool = world["pool"]
        r = rng.random()
        if prop == "C01":
            if r < 0.19:
                return {"op": "new", "slot": rng.randrange(64)}
            if r < 0.22:
                # psutil.Popen: a Process whose child may be reaped behind
                # its back (SIGCHLD handler, os.wait() elsewhere)
                return {"op": "new_popen"}
            if r < 0.24:
                return {"op": "new_bad", "pid": rng.choice(
                    [-1, -7, 2 ** 31, 2 ** 64, 0, 2 ** 31 - 1])}
            if r < 0.50:
                m = rng.choice(["send_signal", "send_signal", "suspend",
                                "resume", "terminate", "kill"])
                op = {"op": "sig", "h": rng.randrange(64), "m": m}
                if m == "send_signal":
                    op["sig"] = rng.choice([1, 2, 9, 15, 17, 18, 19, 64, 34,
                                            0, rng.randrange(0, 65)])
                if rng.random() < 0.06:
                    # the identity re-check cannot read /proc/<pid>/stat for
                    # a reason that is neither "gone" nor "denied"
                    op["deny"] = rng.choice([24, 5, 12, 23])
                if m == "send_signal" and rng.random() < 0.2:
                    op["kw"] = True
                return op
            if r < 0.72:
                kind = rng.choice(["nice", "ionice", "rlimit", "affinity"])
                op = {"op": "set", "h": rng.randrange(64), "m": kind}
                if kind == "nice":
                    op["v"] = rng.randrange(-20, 20)
                elif kind == "ionice":
                    op["cls"], op["v"] = rng.choice(
                        [(1, 0), (1, 7), (2, 3), (2, 0), (3, None), (0, None),
                         (3, 0), (2, 8), (3, 5), (1, -1)])
                elif kind == "rlimit":
                    op["res"] = rng.randrange(0, 16)
                    op["lim"] = rng.choice([[10, 20], [0, 0], [5, 5],
                                            [1024, 4096], [1, 2, 3],
                                            [5000, 9000], [100, 5000]])
                else:
                    op["cpus"] = rng.choice([[0], [], [0, 0], [0, 1], [1],
                                             [99], [0, 99]])
                if rng.random() < 0.3:
                    op["kw"] = True
                return op
            if r < 0.82:
                return {"op": "is_running", "h": rng.randrange(64)}
            if r < 0.86:
                return {"op": rng.choice(["oneshot_enter", "oneshot_enter",
                                          "oneshot_exit"]),
                        "h": rng.randrange(64)}
            if r < 0.90:
                return {"op": "get", "h": rng.randrange(64),
                        "m": rng.choice(GETTER_POOL + ["ppid", "ppid"])}
            if r < 0.94:
                return {"op": "iter", "consume": rng.choice([None, None, 1, 2])}
            if r < 0.97:
                return {"op": "wait0", "h": rng.randrange(64)}
            return {"op": "pid_exists", "n": rng.choice(pool + [0, -1])}
        if prop == "C02":
            if world.get("pidns_foreign") and (r < 0.03 or 0.975 <= r < 0.985):
                # (no children and no signals across PID namespaces)
                return {"op": "is_running", "h": rng.randrange(64)}
            if r < 0.03:
                return {"op": "new_popen"}
            if r < 0.25:
                op = {"op": "new", "slot": rng.randrange(64)}
                if rng.random() < 0.10:
                    # the start time cannot be read while the object is
                    # built (psutil swallows AccessDenied there)
                    op["deny"] = 13
                return op
            if r < 0.45:
                op = {"op": "is_running", "h": rng.randrange(64)}
                if rng.random() < 0.12:
                    # descriptor exhaustion / I/O error while probing: the
                    # call may fail, the object must not be damaged
                    op["deny"] = rng.choice([24, 5, 12, 23])
                return op
            if r < 0.65:
                return {"op": "eq", "h": rng.randrange(64),
                        "h2": rng.randrange(64)}
            if r < 0.72:
                return {"op": "hash", "h": rng.randrange(64)}
            if r < 0.82:
                return {"op": "boot_time"}
            if r < 0.88:
                return {"op": "get", "h": rng.randrange(64),
                        "m": "create_time"}
            if r < 0.92:
                return {"op": "iter", "consume": None}
            if r < 0.95:
                return {"op": rng.choice(["oneshot_enter", "oneshot_exit"]),
                        "h": rng.randrange(64)}
            if r < 0.97:
                return {"op": "get", "h": rng.randrange(64),
                        "m": rng.choice(["ppid", "name", "status"])}
            if r < 0.975:
                # waiting a moment for it (somebody else's zombie stays a
                # zombie; an own child that has ended is reaped, which the
                # reference follows)
                return {"op": "wait0", "h": rng.randrange(64),
                        "timeout": rng.choice([0, 0.02, 0.05])}
            if r < 0.985:
                # calls in between that do not end anybody's life: the
                # existence probe, SIGCONT, numbers the kernel refuses (EINVAL)
                return {"op": "sig", "h": rng.randrange(64),
                        "m": "send_signal",
                        "sig": rng.choice([0, 18, 65, 65, 100, 64])}
            return {"op": "str", "h": rng.randrange(64)}
        if prop == "C04":
            if r < 0.12:
                return {"op": "pids"}
            if r < 0.30:
                op = {"op": "pid_exists", "n": rng.choice(
                    pool + pool + [0, -1, -5, 1, 1000, 2 ** 31, 2 ** 64,
                                   2 ** 31 - 1, 202, 203, 204, 205, 99])}
                if rng.random() < 0.3:
                    # the Tgid probe itself fails (EACCES / EMFILE / EIO):
                    # the answer must still be "listed or not"
                    op["deny"] = rng.choice([13, 24, 5])
                return op
            if r < 0.70:
                op = {"op": "iter", "consume": rng.choice(
                    [None, None, None, None, 0, 1, 2, 3])}
                if rng.random() < 0.25:
                    op["attrs"] = rng.choice([["name"], ["pid", "status"],
                                              ["ppid", "cmdline"], []])
                return op
            if r < 0.78:
                return {"op": "cache_clear"}
            if r < 0.92:
                op = {"op": "is_running_y", "i": rng.randrange(64)}
                if rng.random() < 0.3:
                    # the reuse check runs inside another guarded call first
                    op["via"] = rng.choice(["ppid", "children", "parent"])
                return op
            if world.get("overlap"):
                if rng.random() < 0.35:
                    # the oldest abandoned iterator is finalised now (its
                    # copy of the cache is committed)
                    return {"op": "close_iter"}
                return {"op": "open_iter", "consume": rng.choice([1, 2])}
            return {"op": "iter", "consume": None}
        if prop == "C05":
            if r < 0.04:
                # a psutil.Popen object as the caller (its child may be
                # reaped behind its back and the PID recycled)
                return {"op": "new_popen"}
            if r < 0.30:
                return {"op": "new", "slot": rng.randrange(64)}
            if r < 0.50:
                return {"op": "children", "h": rng.randrange(64),
                        "rec": False}
            if r < 0.72:
                return {"op": "children", "h": rng.randrange(64),
                        "rec": True}
            if r < 0.84:
                op = {"op": "parent", "h": rng.randrange(64)}
                if rng.random() < 0.12:
                    op["deny"] = True
                return op
            if r < 0.93:
                op = {"op": "parents", "h": rng.randrange(64)}
                if rng.random() < 0.12:
                    op["deny"] = True
                return op
            if r < 0.95:
                return {"op": "ppid", "h": rng.randrange(64)}
            if r < 0.975:
                # an open oneshot() block on the handle, with its stat
                # record cached, while the table moves on
                return rng.choice([
                    {"op": "oneshot_enter", "h": rng.randrange(64)},
                    {"op": "oneshot_enter", "h": rng.randrange(64)},
                    {"op": "get", "h": rng.randrange(64), "m": "name"},
                    {"op": "get", "h": rng.randrange(64), "m": "name"},
                    {"op": "oneshot_exit", "h": rng.randrange(64)}])
            if r < 0.98:
                return {"op": "iter", "consume": None}
            return {"op": "is_running", "h": rng.randrange(64)}
        raise ValueError(prop)

    def gen_deep_plan(self, rng):
        """C05: "any number of processes" - one chain of 1000-1400."""
        n = rng.randrange(1020, 1400)
        lo = 2
        procs = [{"pid": lo + i, "ppid": (lo + i - 1) if i else 1,
                  "comm": "c", "starttime": 300100 + i // 3}
                 for i in range(n)]
        world = {"procs": procs, "files": {}, "pool": list(range(lo, lo + n)),
                 "pid_lo": lo, "pid_hi": lo + n - 1, "root": True,
                 "listdir_order": rng.choice(["sorted", "reversed", "o7"]),
                 "mono0": 50000.0, "deep": True}
        ops = [{"op": "new", "slot": 0},
               {"op": "new", "slot": rng.randrange(n // 2, n)},
               {"op": "children", "h": 0, "rec": True},
               {"op": "children", "h": 0, "rec": False},
               {"op": "parents", "h": 1},
               {"op": "children", "h": 1, "rec": True}]
        for j, op in enumerate(ops):
            op["id"] = j
        return {"prop": "C05", "world": world, "ops": ops, "inside": []}

    def gen_plan(self, rng, prop, tier):
        if prop == "C05" and rng.random() < 0.004:
            return self.gen_deep_plan(rng)
        world = self.gen_world(rng, prop)
        nops = rng.randrange(8, 40 if tier == "quick" else 80)
        ops = []
        inside = []
        # swarm: per-run weights
        ev_rate = rng.choice([0.0, 0.15, 0.3, 0.45])
        in_rate = rng.choice([0.0, 0.0, 0.1, 0.25])
        if prop == "C05" and rng.random() < 0.5:
            in_rate = 0.0
        if "bushy_top" in world and rng.random() < 0.7:
            in_rate = 0.35
            ev_rate = min(ev_rate, 0.15)
        # start with a few handles so that ops have targets
        if "bushy_top" in world:
            ops.append({"op": "new", "slot": world["bushy_top"]})
        for i in range(rng.randrange(1, 4)):
            if prop in ("C01", "C02", "C05"):
                ops.append({"op": "new", "slot": rng.randrange(64)})
        for i in range(nops):
            if rng.random() < ev_rate:
                ops.append({"op": "ev", "ev": self.gen_event(rng, world,
                                                             prop)})
            op = self.gen_op(rng, world, prop, i)
            ops.append(op)
            if rng.random() < in_rate and op["op"] not in ("ev", "new_bad"):
                inside.append({"op_id": len(ops) - 1,
                               "n": rng.choice([0, 1]) if op["op"] in (
                                   "sig", "set") else
                               rng.randrange(2, 40) if op["op"] == "children"
                               and rng.random() < 0.6 else
                               rng.choice([0, 0, 1, 1, 2, 3, 5]),
                               "ev": self.gen_event(rng, world, prop)})
        if prop == "C04" and rng.random() < 0.2:
            # targeted shape: a cached PID is recycled and found out by
            # is_running() while an abandoned iterator is (or is not) still
            # open, with cache_clear() / further iterations in between
            live = [p["pid"] for p in world["procs"] if p["pid"] > 1]
            if live:
                x = rng.choice(live)
                if rng.random() < 0.3:
                    # cold variant: the PID is new to a pass that is still in
                    # flight when it is recycled and found out
                    x = min(live)
                    seq = [{"op": "cache_clear"}] if rng.random() < 0.5 \
                        else []
                    seq += [{"op": "open_iter", "consume": rng.choice([2, 3])},
                            {"op": "ev", "ev": self.new_proc_ev(
                                rng, x, world["pool"], "reuse")}]
                    opened = True
                else:
                    seq = [{"op": "iter", "consume": None},
                           {"op": "ev", "ev": self.new_proc_ev(
                               rng, x, world["pool"], "reuse")}]
                    opened = rng.random() < 0.7
                    if opened:
                        seq.append({"op": "open_iter",
                                    "consume": rng.choice([1, 2])})
                seq.append({"op": "is_running_y", "i": 0, "pid": x})
                if rng.random() < 0.3:
                    seq[-1]["via"] = rng.choice(["ppid", "children",
                                                 "parent"])
                if rng.random() < 0.3:
                    seq.append({"op": "iter", "consume": None})
                if rng.random() < 0.5:
                    seq.append({"op": "cache_clear"})
                if rng.random() < 0.2:
                    seq.append({"op": "open_iter", "consume": 1})
                    seq.append({"op": "close_iter"})
                if opened:
                    seq.append({"op": "close_iter"})
                seq += [{"op": "iter", "consume": None},
                        {"op": "iter", "consume": None}]
                at = rng.randrange(0, min(6, len(ops)) + 1)
                shift = len(seq)
                for e in inside:
                    if e["op_id"] >= at:
                        e["op_id"] += shift
                ops[at:at] = seq
                world["overlap"] = True
        if prop == "C05" and rng.random() < 0.08:
            # targeted shape: the PID named by ppid() changes hands while
            # parent() / parents() build and examine the handle for it
            pidset = {p["pid"] for p in world["procs"]}
            cands = [p for p in world["procs"] if p["ppid"] in pidset and
                     p["ppid"] > 1 and p["ppid"] != p["pid"]]
            if cands:
                c = rng.choice(cands)
                pre = [{"op": "new", "slot": world["pool"].index(c["pid"])},
                       {"op": rng.choice(["parent", "parent", "parents"]),
                        "h": 0}]
                for e in inside:
                    e["op_id"] += len(pre)
                ops[0:0] = pre
                ev = self.new_proc_ev(rng, c["ppid"], world["pool"], "reuse")
                ev.pop("as_zombie", None)
                inside.append({"op_id": 1, "n": rng.randrange(1, 12),
                               "ev": ev})
        if prop == "C01" and rng.random() < 0.06:
            # the program holds a handle on itself, fork()s and goes on in
            # the child - which may even receive a recycled PID some handle
            # still points to; the old PID lives on as the parent
            for e in inside:
                e["op_id"] += 1
            ops.insert(0, {"op": "new_self"})
            world["pool"] = world["pool"] + [1000]
            at = rng.randrange(1, min(len(ops), 12) + 1)
            for e in inside:
                if e["op_id"] >= at:
                    e["op_id"] += 1
            ops.insert(at, {"op": "ev", "ev": {
                "ev": "fork_self", "pid": rng.choice(
                    world["pool"][:-1] + [1001, 1001])}})
            for _ in range(rng.randrange(1, 4)):
                at2 = rng.randrange(at + 1, len(ops) + 1)
                for e in inside:
                    if e["op_id"] >= at2:
                        e["op_id"] += 1
                ops.insert(at2, rng.choice([
                    {"op": "set", "h": 0, "m": "rlimit",
                     "res": rng.randrange(0, 16), "lim": [5, 5]},
                    {"op": "set", "h": 0, "m": "nice", "v": 3},
                    {"op": "sig", "h": rng.randrange(64), "m": "suspend"},
                    {"op": "sig", "h": 0, "m": "send_signal", "sig": 18}]))
        if prop == "C02" and rng.random() < 0.06:
            # the program looks at itself, fork()s and goes on in the child;
            # its old PID becomes one more process that may exit and be
            # recycled
            pre = [{"op": "new_self"}]
            if rng.random() < 0.5:
                pre.append({"op": "is_running", "h": 0})
            pre.append({"op": "ev", "ev": {"ev": "fork_self", "pid": 1001}})
            for e in inside:
                e["op_id"] += len(pre)
            ops[0:0] = pre
            world["pool"] = world["pool"] + [1000]
            for _ in range(rng.randrange(2, 6)):
                at = rng.randrange(len(pre), len(ops) + 1)
                for e in inside:
                    if e["op_id"] >= at:
                        e["op_id"] += 1
                ops.insert(at, rng.choice([
                    {"op": "new", "slot": len(world["pool"]) - 1},
                    {"op": "ev", "ev": self.new_proc_ev(
                        rng, 1000, world["pool"][:-1], "reuse")},
                    {"op": "ev", "ev": {"ev": "vanish", "pid": 1000}},
                    {"op": "eq", "h": 0, "h2": rng.randrange(64)},
                    {"op": "is_running", "h": 0}]))
        for j, op in enumerate(ops):
            op["id"] = j
        return {"prop": prop, "world": world, "ops": ops, "inside": inside}

    # ------------------------------------------------------------------
    # execution
    def execute(self, W, plan):
        from ..kernel import StepLimit
        try:
            return self._execute(W, plan)
        except StepLimit as e:
            if plan["prop"] != "C05":
                raise
            from .. import seams
            k = seams.State.kernel
            last = [t for t in k.trace[-6:]]
            if getattr(self, "_cur_op", {}).get("op") == "parents":
                # the statement promises termination for children() only; an
                # endless parent chain (self-parent / equal-age cycle) makes
                # parents() loop and is not judged
                return {"violations": [], "digest": k.digest.hexdigest(),
                        "stats": dict(k.stats),
                        "probes": {"parents_endless_not_judged": 1},
                        "keys": [], "sim_time": 0.0, "sample": []}
            return {"violations": [{
                "clause": "C05.terminates", "tags": ["steplimit"],
                "api": "tree", "msg": "tree walk did not terminate within "
                "%d OS accesses (%s); last accesses: %r" % (
                    k.max_acc, e, last)}],
                "digest": k.digest.hexdigest(), "stats": dict(k.stats),
                "probes": {}, "keys": [], "sim_time": 0.0, "sample": []}

    def _execute(self, W, plan):
        psutil = W.psutil
        prop = plan["prop"]
        world = plan["world"]
        k = self.make_kernel(W.boot, dict(
            {kk: vv for kk, vv in world.items() if kk not in (
                "pool", "overlap", "bushy_top", "deep")},
            max_acc=30000))
        k.keep_snaps = True
        self.install(k)
        k.snaps.append((k.version, k.snapshot()))
        pool = world["pool"]
        st = {"handles": [], "viol": [], "steps": 0, "boot_calls_after_step":
              0, "yielded": [], "iters": [], "open_gens": [], "keys": set(),
              "flag_overlap": set(), "seen_obj": {}, "prop": prop,
              "probes": {}, "flagged": {}, "last_complete": None,
              "cleared": False, "all_yielded_ids": {}, "sample": [],
              "obj_inc": {}, "pre_clear": {}, "pid_hist": {}, "skipped": {}}
        inside = {}
        for e in plan.get("inside") or []:
            inside.setdefault(e["op_id"], []).append(e)
        check = getattr(self, "check_" + prop)

        def probe(name, n=1):
            st["probes"][name] = st["probes"].get(name, 0) + n

        st["probe"] = probe
        for idx, op in enumerate(plan["ops"]):
            kind = op["op"]
            if kind == "ev":
                ev = op["ev"]
                if "pid" in ev:
                    st["pid_hist"].setdefault(ev["pid"], []).append(
                        ev["ev"] + ("Z" if ev.get("as_zombie") else ""))
                elif ev["ev"] == "clock_step":
                    for hl in st["pid_hist"].values():
                        hl.append("step")
                k.apply_event(ev)
                if ev["ev"] == "clock_step":
                    st["steps"] += 1
                    st["stepped_since_boot_call"] = True
                continue
            for e in inside.get(op.get("id"), ()):
                ev = e["ev"]
                if ev["ev"] == "clock_step":
                    continue
                if "pid" in ev:
                    st["pid_hist"].setdefault(ev["pid"], []).append(
                        "in:" + ev["ev"])
                k.schedule_at_procfs(0, idx, e["n"], ev)
            pre = k.snapshot()
            pre_version = k.version
            self._cur_op = op
            acc0, eff0 = len(k.acclog), len(k.effects)
            k.begin_op(idx)
            try:
                if world.get("deep"):
                    # a thread of its own: the interpreter's recursion budget
                    # then does not depend on how deep the harness is (zygote
                    # fork vs fresh replay interpreter)
                    import threading as _th
                    box = {}

                    def _run():
                        try:
                            box["v"] = self.run_op(psutil, k, st, op, pool,
                                                   idx)
                        except BaseException as e_:  # noqa: BLE001
                            box["e"] = e_

                    t_ = _th.Thread(target=_run)
                    t_.start()
                    t_.join()
                    if "e" in box:
                        raise box["e"]
                    out = ("value", box["v"])
                else:
                    out = ("value", self.run_op(psutil, k, st, op, pool, idx))
            except BaseException as e:  # noqa: BLE001
                if isinstance(e, RecursionError) and world.get("deep") and \
                        kind in ("children", "parents"):
                    # the oracle and the kernel model are iterative; on a
                    # deep chain the recursion is psutil's
                    out = ("exc", e)
                elif is_harness_exc(e):
                    raise
                else:
                    out = ("exc", e)
            k.end_op()
            # inside events that never fired are dropped
            for key in [kk for kk in k.pending_p if kk[1] == idx]:
                del k.pending_p[key]
            acc = k.acclog[acc0:]
            eff = k.effects[eff0:]
            check(psutil, k, st, op, out, acc, eff, pre, pre_version, idx)
            if len(st["sample"]) < 12:
                st["sample"].append("%s -> %s" % (
                    json.dumps({a: b for a, b in op.items() if a != "id"}),
                    (type(out[1]).__name__ if out[0] == "exc" or not
                     isinstance(out[1], (int, float, str, bool, type(None)))
                     else repr(out[1])[:60])))
        for h_ in st["handles"]:
            while h_.cms:
                try:
                    h_.cms.pop().__exit__(None, None, None)
                except Exception:  # noqa: BLE001
                    pass
        # close dangling generators deterministically
        had_open = bool(st["open_gens"])
        for g in st["open_gens"]:
            try:
                g.close()
            except Exception:  # noqa: BLE001
                pass
        st["open_gens"] = []
        if prop == "C04" and had_open:
            # eventual coherence: once every iterator is finished, two
            # further sequential iterations satisfy the identity clause
            st["flagged"] = {}
            st["last_complete"] = None
            st["cleared"] = False
            base = len(plan["ops"])
            for j in range(3):
                op = {"op": "iter", "consume": None, "id": base + j}
                pre = k.snapshot()
                pre_version = k.version
                acc0 = len(k.acclog)
                k.begin_op(base + j)
                try:
                    out = ("value", self.run_op(psutil, k, st, op, pool,
                                                base + j))
                except BaseException as e:  # noqa: BLE001
                    if is_harness_exc(e):
                        raise
                    out = ("exc", e)
                k.end_op()
                if j == 0:
                    # the first one only flushes what overlap left behind
                    st["last_complete"] = None
                    if out[0] == "value":
                        continue
                check(psutil, k, st, op, out, k.acclog[acc0:], [], pre,
                      pre_version, base + j)
            st["probes"]["eventual_coherence_checked"] = 1
        res = {"violations": st["viol"], "digest": k.digest.hexdigest(),
               "stats": dict(k.stats), "probes": st["probes"],
               "keys": sorted(st["keys"]), "sim_time": k.mono - float(
                   world.get("mono0", 50000.0)),
               "sample": st["sample"]}
        return res

    def _handle(self, st, i):
        hs = st["handles"]
        if not hs:
            return None
        return hs[i % len(hs)]

    def run_op(self, psutil, k, st, op, pool, idx):
        kind = op["op"]
        if kind == "new":
            pid = pool[op["slot"] % len(pool)]
            acc0 = len(k.acclog)
            if op.get("deny"):
                k.deny = {"/proc/%d/stat" % pid: op["deny"]}
            try:
                obj = psutil.Process(pid)
            finally:
                k.deny = {}
            inc = None
            for a in k.acclog[acc0:]:
                if a[3] == ("open" if op.get("deny") else "read") and \
                        a[4] == "/proc/%d/stat" % pid:
                    inc = a[6]
            if inc is None:
                return "no-inc"
            owners = {a[6] for a in k.acclog[acc0:] if a[5] == pid and a[8]}
            if len(owners) != 1:
                # the table changed under the constructor: which process the
                # object "was created for" is not defined; not judged
                st["probe"]("ambiguous_construction")
                return "ambiguous"
            st["handles"].append(Handle(obj, pid, inc, idx, st["steps"]))
            if op.get("deny"):
                st["handles"][-1].blind = True
                st["probe"]("handle_built_while_start_unreadable")
            return "handle"
        if kind == "new_self":
            obj = psutil.Process()
            cur = k.procs.get(k.self_pid)
            st["handles"].append(Handle(obj, obj.pid, cur.inc, idx,
                                        st["steps"]))
            st["probe"]("handle_on_self")
            return "handle"
        if kind == "new_popen":
            acc0 = len(k.acclog)
            try:
                obj = psutil.Popen(["prog"])
            except OSError as e:
                if getattr(e, "errno", None) == 11:
                    return "no-free-pid"
                raise
            pid = obj.pid
            owners = {a[6] for a in k.acclog[acc0:] if a[5] == pid and a[8]}
            cur = k.procs.get(pid)
            if len(owners) != 1 or cur is None or cur.inc not in owners:
                st["probe"]("ambiguous_construction")
                return "ambiguous"
            st["handles"].append(Handle(obj, pid, cur.inc, idx, st["steps"]))
            st["probe"]("popen_handle")
            if cur.releasing:
                # the child was already half gone (every file below
                # /proc/<pid> ENOENT) when Popen looked: psutil.Popen ignores
                # NoSuchProcess there and the object is built without a start
                # time, like one built while stat was unreadable (KF-C02-2)
                st["handles"][-1].blind = True
                st["probe"]("popen_built_while_child_half_gone")
            return "handle"
        if kind == "new_bad":
            return psutil.Process(op["pid"])
        if kind == "pid_exists":
            if op.get("deny") and 0 < op["n"] < 2 ** 31:
                k.deny = {"/proc/%d/status" % op["n"]: op["deny"]}
                st["probe"]("pid_exists_with_failing_tgid_probe")
            try:
                return psutil.pid_exists(op["n"])
            finally:
                k.deny = {}
        if kind == "pids":
            return psutil.pids()
        if kind == "boot_time":
            st["stepped_since_boot_call"] = False
            if st["steps"]:
                st["boot_calls_after_step"] += 1
            return psutil.boot_time()
        if kind == "cache_clear":
            psutil.process_iter.cache_clear()
            st["cleared"] = True
            return None
        if kind in ("iter", "open_iter"):
            attrs = op.get("attrs")
            g = psutil.process_iter(attrs=attrs, ad_value="<ad>") \
                if attrs is not None else psutil.process_iter()
            consume = op.get("consume")
            got = []
            if kind == "open_iter":
                for _ in range(consume or 1):
                    try:
                        got.append(next(g))
                    except StopIteration:
                        break
                st["open_gens"].append(g)
                return ("partial-open", got)
            if consume is None:
                acc0_ = len(k.acclog)
                got = list(g)
                if st.get("prop") in ("C01", "C02") and not any(
                        e for e in k.stats if e.startswith("ev_in_")):
                    # objects *created* by this pass become handles of their
                    # own (the application keeps what process_iter() yields)
                    for o in got:
                        if id(o) in st["seen_obj"] or o.pid in (1, 1000):
                            continue
                        st["seen_obj"][id(o)] = o
                        owners = {a[6] for a in k.acclog[acc0_:]
                                  if a[5] == o.pid and a[8]}
                        cur = k.procs.get(o.pid)
                        if cur is not None and owners <= {cur.inc} and \
                                len(st["handles"]) < 40:
                            st["handles"].append(Handle(
                                o, o.pid, cur.inc, idx, st["steps"]))
                            st["probe"]("handle_from_process_iter")
                return ("complete", got)
            for _ in range(consume):
                try:
                    got.append(next(g))
                except StopIteration:
                    break
            g.close()
            return ("partial", got)
        if kind == "close_iter":
            if not st["open_gens"]:
                return "no-gen"
            st["open_gens"].pop(0).close()
            st["probe"]("abandoned_iterator_closed")
            return "closed"
        if kind == "is_running_y":
            ys = st["yielded"]
            if not ys:
                return None
            if "pid" in op:
                ys = [y for y in ys if y.pid == op["pid"]] or ys
            o = ys[op["i"] % len(ys)]
            if op.get("via"):
                try:
                    getattr(o, op["via"])()
                except psutil.Error:
                    pass
            return ("y", o, o.is_running())
        h = self._handle(st, op.get("h", 0))
        if h is None:
            return "no-handle"
        st["cur_handle"] = h
        p = h.obj
        if kind == "sig":
            m = op["m"]
            if op.get("deny"):
                k.deny = {"/proc/%d/stat" % h.pid: op["deny"]}
            try:
                if m == "send_signal":
                    if op.get("kw"):
                        return p.send_signal(sig=op["sig"])
                    return p.send_signal(op["sig"])
                return getattr(p, m)()
            finally:
                k.deny = {}
        if kind == "set":
            m = op["m"]
            if op.get("kw"):
                # the same call with its value spelled as a keyword
                if m == "nice":
                    return p.nice(value=op["v"])
                if m == "ionice":
                    return p.ionice(ioclass=op["cls"], value=op["v"])
                if m == "rlimit":
                    return p.rlimit(op["res"], limits=tuple(op["lim"]))
                return p.cpu_affinity(cpus=op["cpus"])
            if m == "nice":
                return p.nice(op["v"])
            if m == "ionice":
                return p.ionice(op["cls"], op["v"])
            if m == "rlimit":
                return p.rlimit(op["res"], tuple(op["lim"]))
            return p.cpu_affinity(op["cpus"])
        if kind == "is_running":
            if op.get("deny"):
                k.deny = {"/proc/%d/stat" % h.pid: op["deny"]}
            try:
                return p.is_running()
            finally:
                k.deny = {}
        if kind == "oneshot_enter":
            if len(h.cms) < 3:
                cm = p.oneshot()
                cm.__enter__()
                h.cms.append(cm)
                st["probe"]("oneshot_block_open")
            return None
        if kind == "oneshot_exit":
            if h.cms:
                h.cms.pop().__exit__(None, None, None)
            return None
        if kind == "get":
            return getattr(p, op["m"])()
        if kind == "wait0":
            try:
                return p.wait(op.get("timeout", 0))
            except psutil.TimeoutExpired:
                return "timeout"
        if kind == "str":
            return str(p)
        if kind == "eq":
            h2 = self._handle(st, op["h2"])
            st["cur_handle2"] = h2
            return (p == h2.obj, p != h2.obj)
        if kind == "hash":
            return hash(p)
        if kind == "children":
            return p.children(recursive=op["rec"])
        if kind in ("parent", "parents") and op.get("deny"):
            # the parent's record cannot be read (hidepid, another user's
            # process): AccessDenied or the right answer, never a guess
            cur_ = k.procs.get(h.pid)
            if cur_ is not None and cur_.ppid not in (h.pid, 1000):
                k.deny = {"/proc/%d/stat" % cur_.ppid: 13}
                st["probe"]("parent_record_unreadable")
        if kind == "parent":
            try:
                return p.parent()
            finally:
                k.deny = {}
        if kind == "parents":
            snap = k.snapshot()
            if h.pid in snap and self._ref_parents(snap, h.pid) is None:
                st["probe"]("parents_skipped_endless_reference_chain")
                k.deny = {}
                return "no-handle"
            try:
                return p.parents()
            finally:
                k.deny = {}
        if kind == "ppid":
            return p.ppid()
        raise ValueError(kind)

    # ------------------------------------------------------------------
    # oracles
    def _V(self, st, clause, tags, api, msg):
        st["viol"].append({"clause": clause, "tags": sorted(set(tags)),
                           "api": api, "msg": msg})

    @staticmethod
    def _owner_at_last_procfs(acc, pid, pre):
        owner = pre.get(pid, (None,))[0]
        found = False
        for a in acc:
            if a[8] and a[3] in PROCFS and a[5] == pid:
                owner = a[6]
                found = True
        return owner, found

    def _track_gone(self, psutil, st, op, out):
        h = st.get("cur_handle")
        if h is None or op["op"] in ("new", "new_popen", "new_self", "new_bad",
                                     "iter",
                                     "pids",
                                     "pid_exists", "boot_time"):
            return
        if out[0] == "exc" and isinstance(out[1], psutil.NoSuchProcess) and \
                not isinstance(out[1], psutil.ZombieProcess):
            h.seen_gone = True
        if op["op"] == "is_running" and out == ("value", False):
            h.seen_gone = True
            h.running_false = True

    # ---- C01 -------------------------------------------------------------
    def check_C01(self, psutil, k, st, op, out, acc, eff, pre, pre_version,
                  idx):
        kind = op["op"]
        probe = st["probe"]
        api = op.get("m") or kind
        # clause 3: never a process-group signal, whatever the operation
        for e in eff:
            if e["kind"] == "kill" and e.get("group"):
                self._V(st, "C01.group_signal", [api, "pid=%d" % e["pid"]],
                        api, "os.kill(%d, %d) issued by %s" % (
                            e["pid"], e["sig"], api))
        if kind not in ("sig", "set") or out == ("value", "no-handle"):
            self._track_gone(psutil, st, op, out)
            return
        h = st["cur_handle"]
        if h.pid == 0 and kind == "set":
            # who=0 means "the caller" to the kernel and the statement only
            # speaks of signals for PID 0: setters on such a handle are not
            # judged
            self._track_gone(psutil, st, op, out)
            return
        deliveries = [e for e in eff if e["kind"] in (
            "kill", "setpriority", "ioprio_set", "affinity_set", "prlimit")
            and not (e["kind"] == "kill" and e["sig"] == 0)]
        owner, found = self._owner_at_last_procfs(acc, h.pid, pre)
        recycled = owner is not None and owner != h.inc
        htags = []
        if h.seen_gone:
            htags.append("handle_seen_gone")
        owners_seen = {a[6] for a in acc if a[8] and a[5] == h.pid}
        if len(owners_seen) > 1:
            htags.append("pid_changed_hands_during_call")
        if recycled:
            probe("attempt_on_recycled_pid")
            cur = k.procs.get(h.pid)
            if h.seen_gone:
                probe("reuse_after_seen_gone")
        if any(e.get("ev") for e in ()):
            pass
        # clause 1
        for e in deliveries:
            if e["inc"] != h.inc:
                self._V(st, "C01.delivered_to_other_incarnation",
                        htags + [e["kind"]], api,
                        "%s on a handle for pid %d (incarnation %d) reached "
                        "incarnation %s: %r" % (api, h.pid, h.inc, e["inc"],
                                                {a: b for a, b in e.items()
                                                 if a in ("kind", "sig",
                                                          "value", "pid")}))
            if e["pid"] != h.pid:
                self._V(st, "C01.exact_payload", ["pid"], api,
                        "%s delivered to pid %d instead of %d" % (
                            api, e["pid"], h.pid))
        # clause 2
        valid, want = self._c01_expect(op, k, h)
        inside_fired = any(a[3] for a in ()) or False
        if recycled:
            cls_ = exc_class(psutil, out[1]) if out[0] == "exc" else None
            ok = cls_ == "NSP" or (not valid and cls_ in (
                "ValueError", "TypeError")) or (
                    op.get("deny") and isinstance(out[1], OSError) and
                    getattr(out[1], "errno", None) == op["deny"])
            if not ok or deliveries:
                self._V(st, "C01.recycled_must_raise", htags + [
                    cls_ or "returned"] + (["delivered"] if deliveries
                                           else []), api,
                        "pid %d was recycled (handle incarnation %d, owner "
                        "%s) but %s %s and delivered %d effect(s)" % (
                            h.pid, h.inc, owner, api,
                            ("raised %r" % (out[1],)) if out[0] == "exc"
                            else "returned", len(deliveries)))
        # clause 4: exact payload
        if deliveries:
            e = deliveries[0]
            if len(deliveries) > 1:
                self._V(st, "C01.exact_payload", ["multiple"], api,
                        "%s produced %d deliveries" % (api, len(deliveries)))
            if h.pid != 0 or kind == "sig":
                got = e.get("sig") if e["kind"] == "kill" else e.get("value")
                if not valid:
                    self._V(st, "C01.exact_payload", ["invalid_delivered"],
                            api, "invalid request %r was delivered: %r" % (
                                op, got))
                elif self._norm(got) != self._norm(want):
                    self._V(st, "C01.exact_payload", ["value"], api,
                            "%s asked %r delivered %r" % (api, want, got))
            if e["inc"] == h.inc:
                probe("delivered_ok")
        # clause 5: exception classes
        if out[0] == "exc" and op.get("deny") and isinstance(
                out[1], OSError) and getattr(out[1], "errno", None) == \
                op["deny"] and not deliveries:
            probe("recheck_failed_transiently")
        elif out[0] == "exc":
            cls = exc_class(psutil, out[1])
            denied = any(e["kind"] in ("kill_denied", "set_denied")
                         for e in eff)
            if cls == "AD" and not denied:
                self._V(st, "C01.exc_type", ["AD", "nodeny"], api,
                        "%s raised %r but the kernel refused nothing" % (
                            api, out[1]))
            if valid and cls not in ("NSP", "AD", "ZP", "ValueError",
                                     "TypeError", "OverflowError"):
                self._V(st, "C01.exc_type", [cls], api,
                        "%s raised %r" % (api, out[1]))
            if cls in ("ValueError", "TypeError") and valid and h.pid != 0:
                self._V(st, "C01.exc_type", [cls, "valid_args"], api,
                        "%s raised %r for valid arguments %r" % (
                            api, out[1], op))
            missed = [e for e in eff if e["kind"] == "kill_miss"
                      and e["sig"] != 0]
            if missed and cls != "NSP":
                self._V(st, "C01.exc_type", [cls, "target_absent"], api,
                        "target absent but %s raised %r" % (api, out[1]))
        else:
            if owner is None and not deliveries and valid and h.pid != 0:
                # target does not exist at all and the call returned quietly
                self._V(st, "C01.exc_type", ["silent_on_absent"], api,
                        "%s returned although pid %d does not exist" % (
                            api, h.pid))
        st["keys"].add("C01|%s|%s|%s|%s|%s" % (
            api, "recycled" if recycled else ("gone" if owner is None
                                              else "live"),
            "seen_gone" if h.seen_gone else "fresh",
            out[0] if out[0] == "value" else exc_class(psutil, out[1]),
            ">".join(st["pid_hist"].get(h.pid, [])[-3:])))
        self._track_gone(psutil, st, op, out)

    @staticmethod
    def _norm(v):
        if isinstance(v, (list, tuple)):
            return tuple(PTable._norm(x) for x in v)
        return v

    def _c01_expect(self, op, k, h):
        """(is the request valid?, payload the kernel must see)"""
        if op["op"] == "sig":
            m = op["m"]
            return True, (op["sig"] if m == "send_signal"
                          else SIGNAL_METHODS[m])
        m = op["m"]
        if m == "nice":
            return True, op["v"]
        if m == "ionice":
            cls, v = op["cls"], op["v"]
            if cls in (0, 3) and v:
                return False, None
            if v is not None and not 0 <= v <= 7:
                return False, None
            return True, (cls, v or 0)
        if m == "rlimit":
            if len(op["lim"]) != 2:
                return False, None
            return True, (op["res"], tuple(op["lim"]))
        cpus = op["cpus"]
        if not cpus:
            return True, tuple(sorted(k.eligible_cpus(None)))
        el = set(k.eligible_cpus(None))
        if not (set(cpus) & el):
            return False, None
        return True, tuple(sorted(set(cpus)))

    # ---- C02 -------------------------------------------------------------
    def check_C02(self, psutil, k, st, op, out, acc, eff, pre, pre_version,
                  idx):
        kind = op["op"]
        probe = st["probe"]
        post = k.snapshot()
        ctags = []
        if st["steps"]:
            ctags.append("after_clock_step")
            if st["boot_calls_after_step"]:
                ctags.append("boot_time_called_after_step")
        if kind == "eq" and out[0] == "value" and out[1] != "no-handle":
            h1, h2 = st["cur_handle"], st["cur_handle2"]
            want = (h1.pid == h2.pid and h1.inc == h2.inc)
            eq, ne = out[1]
            if h1 is not h2 and (h1.blind or h2.blind):
                ctags = ctags + ["start_unreadable_at_construction",
                                 "both_blind" if h1.blind and h2.blind
                                 else "one_blind"]
            if eq != want or ne == eq:
                self._V(st, "C02.eq", ctags + [
                    "same_process" if want else "different_process"], "eq",
                    "handles (pid %d inc %d, born op %d) and (pid %d inc %d, "
                    "born op %d): == is %r, expected %r" % (
                        h1.pid, h1.inc, h1.born_op, h2.pid, h2.inc,
                        h2.born_op, eq, want))
            hh1, hh2 = hash(h1.obj), hash(h2.obj)
            if want and hh1 != hh2:
                self._V(st, "C02.hash", ctags + ["equal_differ"], "hash",
                        "same process, different hashes")
            if not want and h1.pid == h2.pid and hh1 == hh2:
                self._V(st, "C02.hash", ctags + ["unequal_collide"], "hash",
                        "different incarnations of pid %d hash alike" %
                        h1.pid)
            st["keys"].add("C02|eq|%s|%s|%s|%s" % (
                want, ",".join(ctags), h1.pid == h2.pid,
                ">".join(st["pid_hist"].get(h1.pid, [])[-3:])))
            if want and h1 is not h2 and h1.born_steps != h2.born_steps:
                probe("same_process_across_clock_step")
            if not want and h1.pid == h2.pid:
                probe("two_incarnations_compared")
        elif kind == "eq" and out[0] == "exc":
            self._V(st, "C02.eq", ["exception"], "eq", "== raised %r" %
                    (out[1],))
        if kind == "hash" and out[0] == "value" and out[1] != "no-handle":
            h = st["cur_handle"]
            if h.hash0 is None:
                h.hash0 = out[1]
            elif h.hash0 != out[1]:
                self._V(st, "C02.hash", ctags + ["changed"], "hash",
                        "hash of a handle changed")
        if kind == "is_running" and out[1] != "no-handle" and \
                op.get("deny") and out[0] == "exc" and \
                isinstance(out[1], OSError) and not isinstance(
                    out[1], (PermissionError, FileNotFoundError,
                             ProcessLookupError)):
            # the injected EMFILE/EIO/ENOMEM may come through; what matters
            # is that later answers are unharmed (checked by later ops)
            probe("is_running_probe_failed")
            return
        if kind == "is_running" and out[1] != "no-handle":
            h = st["cur_handle"]
            if out[0] == "exc":
                other_ = post.get(h.pid)
                self._V(st, "C02.running", ["exception", (
                    "pid_respawned" if other_ is not None and
                    other_[0] != h.inc else "pid_not_respawned")],
                    "is_running", "is_running raised %r" % (out[1],))
                return
            alive_pre = pre.get(h.pid, (None,))[0] == h.inc
            alive_post = post.get(h.pid, (None,))[0] == h.inc
            val = out[1]
            tags = list(ctags)
            if h.blind:
                tags.append("start_unreadable_at_construction")
                if k.version != pre_version:
                    tags.append("table_changed_during_call")
            if h.running_false:
                tags.append("was_false_before")
            if val and h.running_false:
                self._V(st, "C02.sticky", tags, "is_running",
                        "is_running() went back to True for pid %d" % h.pid)
            if alive_pre and alive_post and not val:
                self._V(st, "C02.running_while_listed", tags, "is_running",
                        "is_running() is False but incarnation %d of pid %d "
                        "is still in the table" % (h.inc, h.pid))
            if not alive_pre and not alive_post and val:
                other = post.get(h.pid)
                self._V(st, "C02.not_resurrected" if other else
                        "C02.running_after_gone", tags, "is_running",
                        "is_running() is True but incarnation %d of pid %d "
                        "is gone (owner now: %s)" % (
                            h.inc, h.pid, other[0] if other else None))
            if not val:
                h.running_false = True
            if not alive_pre and post.get(h.pid):
                probe("is_running_on_recycled_pid")
            st["keys"].add("C02|run|%s|%s|%s|%s" % (
                alive_pre, alive_post, ",".join(tags),
                ">".join(st["pid_hist"].get(h.pid, [])[-3:])))
        if kind in ("get", "str", "boot_time", "iter") and out[0] == "exc":
            cls = exc_class(psutil, out[1])
            if cls not in ("NSP", "ZP", "AD"):
                self._V(st, "C02.exception", [cls], kind, "%s raised %r" % (
                    kind, out[1]))
        self._track_gone(psutil, st, op, out)

    # ---- C04 -------------------------------------------------------------
    def check_C04(self, psutil, k, st, op, out, acc, eff, pre, pre_version,
                  idx):
        kind = op["op"]
        probe = st["probe"]
        post = k.snapshot()
        if out[0] == "exc":
            cls = exc_class(psutil, out[1])
            tags = [cls]
            if kind == "pid_exists":
                tags.append("n>=2**31" if op["n"] >= 2 ** 31 else "n")
            self._V(st, "C04.exception", tags, kind, "%s(%r) raised %r" % (
                kind, {a: b for a, b in op.items() if a not in ("id", "op")},
                out[1]))
            return
        snaps_during = [s for v, s in k.snaps if v > pre_version]
        if kind == "pids":
            lst = None
            for a in acc:
                if a[3] == "listdir" and a[4] == "/proc":
                    lst = k.snap_at(a[7])
            want = sorted(lst) if lst is not None else None
            if out[1] != want:
                self._V(st, "C04.pids", [], "pids", "pids() -> %r, table at "
                        "the listing: %r" % (out[1], want))
            st["keys"].add("C04|pids|%d" % len(out[1]))
        elif kind == "pid_exists":
            n = op["n"]
            listed_some = any(n in s for s in [pre] + snaps_during)
            listed_all = all(n in s for s in [pre] + snaps_during)
            val = out[1]
            if val is not True and val is not False:
                self._V(st, "C04.exists", ["type"], "pid_exists",
                        "pid_exists(%r) -> %r" % (n, val))
            elif val and not listed_some:
                tid = k.tid_owner(n) is not None
                self._V(st, "C04.exists", ["true_for_unlisted"] + (
                    ["tid"] if tid else []), "pid_exists",
                    "pid_exists(%r) is True; not a listed PID" % n)
            elif not val and listed_all:
                self._V(st, "C04.exists", ["false_for_listed"], "pid_exists",
                        "pid_exists(%r) is False for a listed PID" % n)
            st["keys"].add("C04|exists|%s|%s" % (
                "neg" if n < 0 else "huge" if n >= 2 ** 31 else
                "tid" if k.tid_owner(n) else "listed" if listed_some
                else "absent", val))
        elif kind in ("iter", "open_iter"):
            mode, got = out[1]
            pl = [p.pid for p in got]
            lst = None
            for a in acc:
                if a[3] == "listdir" and a[4] == "/proc":
                    lst = k.snap_at(a[7])
                    break
            overlapping = bool(st["open_gens"]) or kind == "open_iter"
            if overlapping:
                # an iteration that starts while another one is unfinished
                # and a recycled-PID notice is pending: whichever commits
                # last wins (lost update, KF-C04-4)
                st["flag_overlap"].update(st["flagged"])
            if pl != sorted(pl):
                self._V(st, "C04.iter_order", [], "process_iter",
                        "yield order %r is not ascending" % pl)
            if len(set(pl)) != len(pl):
                self._V(st, "C04.iter_unique", [], "process_iter",
                        "pid yielded twice: %r" % pl)
            if lst is not None:
                extra = [p for p in pl if p not in lst]
                if extra:
                    self._V(st, "C04.iter_listed", [], "process_iter",
                            "yielded pids %r not listed at the listing" %
                            extra)
                if mode == "complete":
                    for pid in sorted(lst):
                        if pid in pl:
                            continue
                        stayed = all(pid in s and s[pid][0] == lst[pid][0]
                                     for s in snaps_during + [post])
                        if not stayed:
                            continue
                        flagged = pid in st["flagged"]
                        # (objects yielded before a cache_clear() cannot
                        # be in psutil's cache any more)
                        stale = any(
                            o.pid == pid and inc is not None and
                            inc != lst[pid][0] and
                            id(o) not in st["pre_clear"]
                            for (o, inc) in st["obj_inc"].values())
                        self._V(st, "C04.iter_missing", (
                            ["flagged_recycled"] if flagged else []) +
                            (["stale_cached_object"] if stale and not flagged
                             else []) +
                            (["attrs"] if op.get("attrs") is not None else [])
                            + (["overlap"] if overlapping else []),
                            "process_iter", "listed pid %d (never vanished) "
                            "was not yielded: %r" % (pid, pl))
            attrs = op.get("attrs")
            if attrs is not None:
                want = set(attrs) if attrs else set(psutil._as_dict_attrnames)
                for p in got:
                    info = getattr(p, "info", None)
                    if not isinstance(info, dict) or set(info) != want:
                        self._V(st, "C04.attrs", [], "process_iter",
                                "info keys %r != requested %r" % (
                                    sorted(info) if isinstance(info, dict)
                                    else info, sorted(want)))
                        break
                    st.setdefault("info_held", {})[id(p)] = p
            # the application keeps what an attrs pass yielded: whatever
            # other passes run meanwhile, the attached dict stays attached
            # (a later attrs pass may replace it with its own)
            for p in list(st.get("info_held", {}).values()):
                if not isinstance(getattr(p, "info", None), dict):
                    self._V(st, "C04.attrs", ["info_lost_later"],
                            "process_iter", "object for pid %d yielded by an "
                            "attrs pass has lost its info dict after a later "
                            "pass" % p.pid)
                    st["info_held"].pop(id(p), None)
            # incarnation of objects created by this iteration
            for o in got:
                if id(o) not in st["obj_inc"]:
                    inc = None
                    owners = set()
                    for a in acc:
                        if a[5] == o.pid and a[8]:
                            owners.add(a[6])
                        if inc is None and a[3] == "read" and \
                                a[4] == "/proc/%d/stat" % o.pid:
                            inc = a[6]
                    # built while the PID changed hands: which process the
                    # object stands for is undefined -> treated as stale
                    st["obj_inc"][id(o)] = (o, inc if len(owners) <= 1
                                            else -1)
            # identity across successive complete iterations
            now_ids = {p.pid: p for p in got}
            if mode == "complete" and not overlapping:
                prev = st["last_complete"]
                if prev is not None and not st["cleared"]:
                    pver, pobjs, plst = prev
                    for pid, obj in now_ids.items():
                        if pid not in pobjs:
                            continue
                        between = [s for v, s in k.snaps if v >= pver] + [post]
                        cont = all(pid in s and s[pid][0] == plst[pid][0]
                                   for s in between) if pid in plst else False
                        if pid in st["flagged"]:
                            continue
                        if cont and obj is not pobjs[pid]:
                            self._V(st, "C04.identity", [], "process_iter",
                                    "pid %d stayed listed but a different "
                                    "object was yielded" % pid)
                        if cont:
                            probe("identity_checked")
                    # dropped entries: pid absent from the previous complete
                    # listing must not come back with an older object
                    for pid, obj in now_ids.items():
                        if pid not in plst and pid in st["all_yielded_ids"] \
                                and any(obj is o for o in
                                        st["all_yielded_ids"][pid]):
                            self._V(st, "C04.dropped", [], "process_iter",
                                    "pid %d was absent from the previous "
                                    "complete iteration but its old object "
                                    "was yielded again" % pid)
                if st["cleared"]:
                    st["cleared"] = False
                    probe("iter_after_cache_clear")
                # recycled entries refreshed
                for pid, old in list(st["flagged"].items()):
                    if pid in now_ids and now_ids[pid] is old:
                        self._V(st, "C04.recycled_refreshed", ["old_object"]
                                + (["overlapping_iterations_after_flag"]
                                   if pid in st["flag_overlap"] else []),
                                "process_iter", "object flagged recycled for "
                                "pid %d was yielded again" % pid)
                    if lst is not None and pid in lst:
                        del st["flagged"][pid]
                        st["flag_overlap"].discard(pid)
                # entries skipped because the process vanished while
                # iterating must be dropped from the cache
                if lst is not None:
                    for pid in lst:
                        if pid not in now_ids and pid in \
                                st["all_yielded_ids"]:
                            st["skipped"][pid] = list(
                                st["all_yielded_ids"][pid])
                st["last_complete"] = (k.version, now_ids, lst or {})
            elif mode != "complete" or overlapping:
                if overlapping:
                    probe("iterator_overlap")
                st["last_complete"] = None
                if not overlapping:
                    for pid, old in st["flagged"].items():
                        if pid in now_ids and now_ids[pid] is old:
                            self._V(st, "C04.recycled_refreshed",
                                    ["old_object"] + (
                                        ["overlapping_iterations_after_flag"]
                                        if pid in st["flag_overlap"] else []),
                                    "process_iter",
                                    "object flagged recycled for pid %d was "
                                    "yielded again" % pid)
            if not overlapping:
                for pid, obj in now_ids.items():
                    if any(obj is o for o in st["skipped"].get(pid, ())) \
                            and pid not in st["flagged"]:
                        self._V(st, "C04.dropped", ["vanished_while_"
                                                    "iterating"],
                                "process_iter", "pid %d vanished during an "
                                "earlier iteration (it was skipped) but its "
                                "old object is yielded again" % pid)
                for pid, obj in now_ids.items():
                    if id(obj) in st["pre_clear"]:
                        self._V(st, "C04.cache_clear", [], "process_iter",
                                "object for pid %d yielded before "
                                "cache_clear() was yielded again" % pid)
            for pid, obj in now_ids.items():
                st["all_yielded_ids"].setdefault(pid, []).append(obj)
            st["yielded"] = got or st["yielded"]
            if any(e for e in k.stats if e.startswith("ev_in_")):
                probe("table_changed_during_iteration", 0)
            st["keys"].add("C04|iter|%s|%d|%s|%s" % (
                mode, len(pl), bool(attrs is not None), overlapping))
        elif kind == "is_running_y" and out[1] is not None:
            _, o, val = out[1]
            cur = post.get(o.pid)
            oinc = st["obj_inc"].get(id(o), (None, None))[1]
            # the identity read must have seen the *new* owner from open to
            # read (otherwise is_running() only learnt "gone", not "reused")
            seen = [a[6] for a in acc if a[3] in ("open", "read") and
                    a[4] == "/proc/%d/stat" % o.pid]
            checked = len(seen) >= 2 and cur is not None and \
                all(x == cur[0] for x in seen)
            # "found recycled by is_running()": the call really compared
            # identities and the PID is owned by another incarnation
            if val is False and cur is not None and checked and \
                    oinc is not None and cur[0] != oinc:
                st["flagged"][o.pid] = o
                probe("flagged_recycled_by_is_running")
            st["keys"].add("C04|isr|%s|%s" % (val, cur is not None))
        elif kind == "cache_clear":
            st["last_complete"] = None
            if not st["open_gens"]:
                for lst_ in st["all_yielded_ids"].values():
                    for o in lst_:
                        st["pre_clear"][id(o)] = o

    # ---- C05 -------------------------------------------------------------
    def check_C05(self, psutil, k, st, op, out, acc, eff, pre, pre_version,
                  idx):
        kind = op["op"]
        probe = st["probe"]
        if kind not in ("children", "parent", "parents", "ppid") or \
                out == ("value", "no-handle"):
            self._track_gone(psutil, st, op, out)
            return
        h = st["cur_handle"]
        post = k.snapshot()
        snaps_during = [s for v, s in k.snaps if v > pre_version]
        moving = bool(snaps_during)
        api = kind + ("_r" if op.get("rec") else "")
        owner_pre = pre.get(h.pid, (None,))[0]
        owner_post = post.get(h.pid, (None,))[0]
        recycled = (owner_pre is not None and owner_pre != h.inc and
                    owner_post is not None and owner_post != h.inc)
        gone = owner_pre != h.inc
        tags = []
        if h.seen_gone:
            tags.append("handle_seen_gone")
        if h.cms:
            tags.append("oneshot_block_open")
        if out[0] == "exc":
            cls = exc_class(psutil, out[1])
            if cls not in ("NSP", "ZP", "AD"):
                respawn = any(
                    pre.get(pid_, (None,))[0] != v_[0]
                    for s_ in snaps_during + [post]
                    for pid_, v_ in s_.items())
                self._V(st, "C05.exception", [cls, (
                    "pid_respawned_during_call" if respawn else
                    "no_respawn_during_call")], api, "%s raised %r" % (
                    api, out[1]))
            elif cls == "NSP" and not gone and not moving:
                self._V(st, "C05.spurious_nsp", tags, api, "%s raised %r for "
                        "a live caller" % (api, out[1]))
            self._track_gone(psutil, st, op, out)
            return
        if recycled and not moving:
            probe("tree_query_on_recycled_caller")
            self._V(st, "C05.recycled_caller", tags, api,
                    "caller pid %d was recycled (incarnation %d -> %s) but "
                    "%s returned %r" % (h.pid, h.inc, owner_pre, api,
                                        self._pids_of(out[1])))
            return
        if gone:
            return
        if h.cms and kind in ("ppid", "parent", "parents"):
            # inside an open oneshot() block these answer from the record
            # cached at its first read (C16): not the current table
            self._track_gone(psutil, st, op, out)
            return
        me = pre[h.pid]
        my_start = me[5]
        if kind == "children":
            got = [p.pid for p in out[1]]
            if not moving:
                # every returned object must stand for the process that owns
                # that PID now (not for a previous owner of the PID)
                from .. import seams as _seams
                saved = _seams.State.kernel
                _seams.State.kernel = k.view()
                try:
                    for c_ in out[1]:
                        try:
                            fresh = psutil.Process(c_.pid)
                            same = (c_ == fresh)
                        except psutil.Error:
                            continue
                        if not same and c_.pid in pre:
                            self._V(st, "C05.children_exact", tags + [
                                "stale_object"], api, "%s returned an object "
                                "for pid %d that is not the process owning "
                                "that PID now" % (api, c_.pid))
                finally:
                    _seams.State.kernel = saved
                want = self._ref_children(pre, h.pid, my_start, op["rec"])
                if sorted(got) != sorted(want):
                    t = list(tags)
                    if h.pid in got:
                        t.append("includes_self")
                    if len(set(got)) != len(got):
                        t.append("duplicates")
                    older = [p for p in got if p in pre and
                             pre[p][5] < my_start]
                    if older:
                        t.append("older_than_caller")
                    if set(want) - set(got):
                        t.append("missing")
                    if (set(got) - set(want)) - {h.pid}:
                        t.append("extra")
                    self._V(st, "C05.children_exact", t, api,
                            "%s of pid %d -> %r, reference %r (ppid map %r)"
                            % (api, h.pid, sorted(got), sorted(want),
                               {p: v[4] for p, v in pre.items()}))
                else:
                    probe("children_exact_ok")
                    if self._has_cycle(pre):
                        probe("cycle_in_ppid_map")
            else:
                probe("children_moving")
                allsn = [pre] + snaps_during
                if h.pid in got:
                    self._V(st, "C05.children_sound", tags + [
                        "includes_self"], api, "children() of pid %d "
                        "contains the caller" % h.pid)
                if len(set(got)) != len(got):
                    self._V(st, "C05.children_sound", tags + ["duplicates"],
                            api, "duplicates in %r" % got)
                # completeness under movement: a process that was a
                # (reference) child/descendant in EVERY snapshot of the
                # call, as the same incarnation, must be returned
                req = None
                for s in allsn:
                    if h.pid not in s or s[h.pid][0] != h.inc:
                        req = set()
                        break
                    w = {p_: s[p_][0] for p_ in self._ref_children(
                        s, h.pid, s[h.pid][5], op["rec"])}
                    req = w if req is None else {
                        p_: i_ for p_, i_ in req.items() if w.get(p_) == i_}
                missing = sorted(set(req or ()) - set(got))
                if missing:
                    self._V(st, "C05.children_complete", tags + ["moving"],
                            api, "%s of pid %d -> %r: %r stayed its "
                            "descendants for the whole call but are missing"
                            % (api, h.pid, sorted(got), missing))
                # soundness against the union of the parent links that
                # existed at any moment of the call (the scan is not atomic:
                # records read before and after a PID reuse get mixed, which
                # no user-space scan can avoid)
                edges = {}
                for s in allsn:
                    for p_, v_ in s.items():
                        edges.setdefault(p_, set()).add(v_[4])
                for pid in got:
                    if pid == h.pid:
                        continue
                    if not op["rec"]:
                        ok = h.pid in edges.get(pid, ())
                    else:
                        ok = False
                        seen_, todo = set(), [pid]
                        while todo and not ok:
                            c_ = todo.pop()
                            if c_ in seen_:
                                continue
                            seen_.add(c_)
                            for par in edges.get(c_, ()):
                                if par == h.pid:
                                    ok = True
                                    break
                                todo.append(par)
                    if not ok:
                        self._V(st, "C05.children_sound", tags + ["unrelated"],
                                api, "pid %d never had a parent chain to %d"
                                % (pid, h.pid))
            st["keys"].add("C05|%s|%s|%d|%s|%s" % (
                api, "moving" if moving else "quiet", len(got),
                self._has_cycle(pre),
                ">".join(st["pid_hist"].get(h.pid, [])[-2:])))
        elif kind == "ppid":
            if not moving and out[1] != me[4]:
                self._V(st, "C05.ppid", tags, api, "ppid() -> %r, kernel "
                        "says %r" % (out[1], me[4]))
        elif kind == "parent" and moving:
            # the table moved during the call: whatever is returned, a handle
            # that *is* the current owner of its PID (equal to a fresh
            # Process(pid)) must not name a process younger than the caller
            probe("parent_moving")
            par = out[1]
            cur = post.get(par.pid) if par is not None else None
            mine = post.get(h.pid)
            if cur is not None and mine is not None and mine[0] == h.inc \
                    and not st["steps"] and cur[5] > my_start:
                from .. import seams as _seams
                saved = _seams.State.kernel
                _seams.State.kernel = k.view()
                try:
                    try:
                        same = (par == psutil.Process(par.pid))
                    except psutil.Error:
                        same = False
                finally:
                    _seams.State.kernel = saved
                if same:
                    self._V(st, "C05.parent_sound", tags + [
                        "live_handle_younger_than_caller"], api,
                        "parent() of pid %d (start %r) returned a handle "
                        "that stands for the current owner of pid %d, which "
                        "started at %r: after the caller" % (
                            h.pid, my_start, par.pid, cur[5]))
        elif kind == "parent" and not moving:
            want = self._ref_parent(pre, h.pid)
            got = out[1].pid if out[1] is not None else None
            if got != want:
                self._V(st, "C05.parent", tags + [
                    "none_expected" if want is None else "pid_expected"],
                    api, "parent() of pid %d -> %r, reference %r (ppid %r)"
                    % (h.pid, got, want, me[4]))
            st["keys"].add("C05|parent|%s" % (want is None))
        elif kind == "parents" and not moving:
            chain = self._ref_parents(pre, h.pid)
            got = [p.pid for p in out[1]]
            if chain is not None and got != chain:
                self._V(st, "C05.parents", tags, api, "parents() of pid %d "
                        "-> %r, reference %r" % (h.pid, got, chain))
            st["keys"].add("C05|parents|%d" % len(got))
        self._track_gone(psutil, st, op, out)

    @staticmethod
    def _pids_of(v):
        if isinstance(v, list):
            return [getattr(x, "pid", x) for x in v]
        return getattr(v, "pid", v)

    @staticmethod
    def _has_cycle(snap):
        for pid in snap:
            seen = set()
            cur = pid
            while cur in snap and cur not in seen:
                seen.add(cur)
                cur = snap[cur][4]
            if cur in seen and cur in snap:
                return True
        return False

    @staticmethod
    def _ref_children(snap, me, my_start, rec):
        rev = {}
        for pid, v in snap.items():
            rev.setdefault(v[4], []).append(pid)
        out = []
        if not rec:
            for pid in rev.get(me, ()):
                if pid != me and snap[pid][5] >= my_start:
                    out.append(pid)
            return out
        seen = {me}
        stack = [me]
        while stack:
            cur = stack.pop()
            for c in rev.get(cur, ()):
                if c in seen:
                    continue
                if snap[c][5] >= my_start:
                    seen.add(c)
                    out.append(c)
                    stack.append(c)
        return out

    @staticmethod
    def _chain_reaches(snap, pid, me, rec):
        cur = pid
        seen = set()
        hops = 0
        while cur in snap and cur not in seen:
            seen.add(cur)
            par = snap[cur][4]
            hops += 1
            if par == me:
                return True
            if not rec:
                return False
            cur = par
        return False

    @staticmethod
    def _ref_parent(snap, pid):
        ppid = snap[pid][4]
        if ppid in snap and snap[ppid][5] <= snap[pid][5]:
            return ppid
        return None

    def _ref_parents(self, snap, pid):
        chain = []
        cur = pid
        for _ in range(len(snap) + 2):
            par = self._ref_parent(snap, cur)
            if par is None:
                return chain
            chain.append(par)
            cur = par
        return None     # infinite reference chain: not compared

    # ------------------------------------------------------------------
    def run_unit(self, W, unit_seed, tier):
        prop = W.prop
        rng = self.rng("pt", prop, unit_seed)
        plan = self.gen_plan(rng, prop, tier)
        # C05 parents(): avoid calling it when the reference chain is endless
        r = W.execute_forked(plan)
        u = {"evals": 1, "keys": set(), "stats": {}, "violations": [],
             "harness_errors": [], "timeouts": 0, "digest_checks": 0}
        if not isinstance(r, dict) or r.get("timeout"):
            u["timeouts"] = 1
            if prop == "C05":
                u["violations"].append({
                    "sig": ["C05.terminates", [], "tree"],
                    "msg": "run did not finish (wall-clock)", "plan": plan})
            else:
                u["harness_errors"].append("timeout in %s unit %d" % (
                    prop, unit_seed))
            return u
        if "harness_error" in r:
            u["harness_errors"].append(r["harness_error"] + " " +
                                       r.get("tb", "")[-700:])
            return u
        u["keys"].update(r.get("keys") or ())
        for kk, vv in (r.get("stats") or {}).items():
            u["stats"][kk] = u["stats"].get(kk, 0) + vv
        for kk, vv in (r.get("probes") or {}).items():
            u["stats"][kk] = u["stats"].get(kk, 0) + vv
        u["sim_time"] = r.get("sim_time", 0.0)
        if (unit_seed % 50) == 0:
            r2 = W.execute_forked(plan)
            u["digest_checks"] = 1
            if r2.get("digest") != r.get("digest"):
                u["harness_errors"].append("digest mismatch on re-execution")
        for v in r.get("violations") or []:
            u["violations"].append({"sig": list(sig_of(v)), "msg": v["msg"],
                                    "plan": plan})
        if r.get("sample"):
            u["sample"] = {"ops": r["sample"],
                           "inside_events": len(plan["inside"])}
        return u


PTable.RULE = (
    "each run = one seeded plan (world of 1-8 pids in a tiny PID range, 8-80 "
    "operations, kernel events between operations and just before the n-th "
    "procfs access inside operations); distinct+non-trivial = distinct "
    "abstract outcome keys (api x target state {live, gone, recycled} x "
    "handle history x outcome class x the last three kernel events that "
    "concerned that PID, resp. comparison class / iteration shape / tree "
    "shape), counted only where the property's precondition actually "
    "occurred")
PTable.ASSUMPTIONS = [
    "a PID is never reused within the clock tick in which its previous owner "
    "started (psutil's documented 10 ms identity resolution)",
    "no exit+reap+reuse is injected between the identity re-check and the "
    "delivering syscall of the same call (no user-space library can close "
    "that window without pidfds); inside events fire before procfs accesses "
    "only",
    "SimKernel models kill/setpriority/ioprio_set/sched_setaffinity/prlimit "
    "argument ranges and errnos as Linux does",
]
PTable.COMPONENTS = {
    "real": ["psutil/__init__.py", "psutil/_common.py", "psutil/_pslinux.py",
             "psutil/_psposix.py"],
    "stub": ["Linux kernel (SimKernel process table, PID allocator, procfs, "
             "kill/setpriority/ioprio/affinity/prlimit/waitpid)", "clocks",
             "syscall entry points of the C extensions"],
}
PTable.PROBES_BY_PROP = {
    "C01": ["attempt_on_recycled_pid", "reuse_after_seen_gone",
            "oneshot_block_open", "popen_handle",
            "delivered_ok", "ev_in_reuse", "ev_reuse"],
    "C02": ["two_incarnations_compared", "same_process_across_clock_step",
            "is_running_probe_failed",
            "handle_built_while_start_unreadable",
            "is_running_on_recycled_pid", "ev_clock_step", "ev_reuse"],
    "C04": ["identity_checked", "iterator_overlap",
            "pid_exists_with_failing_tgid_probe",
            "flagged_recycled_by_is_running", "iter_after_cache_clear",
            "ev_in_vanish", "ev_in_reuse"],
    "C05": ["tree_query_on_recycled_caller", "cycle_in_ppid_map",
            "children_moving", "children_exact_ok", "parent_moving"],
}

ENGINE = PTable()
