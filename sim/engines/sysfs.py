"""sysfs engine -- C19: sensors / battery / cpu_freq / cpu_count / cpu_stats /
boot_time against generated /sys and /proc trees, with every file the call
touches made absent / unreadable / erroring in turn (fault enumeration over
files), under the pinned hash seed of the batch.
"""

from .base import EngineBase, exc_class, is_harness_exc
from ..runner import sig_of

HW = "/sys/class/hwmon"
TZ = "/sys/class/thermal"
PS = "/sys/class/power_supply"
CPU = "/sys/devices/system/cpu"

FAULTS = ("absent", "EACCES", "EIO", "ENODEV", "ENXIO", "garbage")
def cpulist(nums):
    """Kernel cpulist format: "0-3", "0,4", "0-1,8-9"."""
    out = []
    i = 0
    while i < len(nums):
        j = i
        while j + 1 < len(nums) and nums[j + 1] == nums[j] + 1:
            j += 1
        out.append("%d" % nums[i] if i == j else "%d-%d" % (nums[i], nums[j]))
        i = j + 1
    return ",".join(out)


SUBJECTS = ("temps", "temps_f", "fans", "battery", "cpu_freq",
            "cpu_freq_percpu", "cpu_count", "cpu_count_cores", "cpu_stats",
            "boot_time", "boot_time_history")


def readable(files, path):
    n = files.get(path)
    return n is not None and n.get("t", "f") == "f" and \
        not n.get("open_err") and not n.get("read_err")


def data(files, path):
    return files[path]["data"] if isinstance(files[path], dict) \
        else files[path]


def num(files, path, conv=float):
    """value of a numeric file or None when unreadable / non numeric"""
    if not readable(files, path):
        return None
    try:
        return conv(data(files, path).strip())
    except ValueError:
        return "garbage"


class SysFs(EngineBase):
    name = "sysfs"
    SHRINK_LISTS = [("steps",)]

    def boot_config(self, rng):
        b = EngineBase.boot_config(self, rng)
        b["cpufreq_layout"] = rng.choice(["policy", "percpu", "none",
                                          "policy"])
        files = {}
        ids = b["cpu_ids"]
        if b["cpufreq_layout"] == "policy":
            files[CPU + "/cpufreq/policy0/scaling_cur_freq"] = "1000000\n"
        elif b["cpufreq_layout"] == "percpu":
            files[CPU + "/cpu0/cpufreq/scaling_cur_freq"] = "1000000\n"
        b["files"] = files
        return b

    # ------------------------------------------------------------------
    def gen_world(self, rng, boot):
        files = {}
        meta = {"temps": [], "fans": [], "zones": []}
        nchips = rng.choice([0, 1, 2, 3, 4])
        for c in range(nchips):
            nested = rng.random() < 0.3
            base = "%s/hwmon%d%s" % (HW, c, "/device" if nested else "")
            cname = rng.choice(["coretemp", "acpitz", "nvme", "k10temp",
                                "amdgpu"]) + (str(c) if rng.random() < 0.5
                                              else "")
            has_name = rng.random() < 0.9
            if has_name:
                files[base + "/name"] = cname + "\n"
            for t in range(1, rng.randrange(0, 6) + 1):
                ent = {"base": "%s/temp%d" % (base, t), "chip": cname,
                       "has_name": has_name}
                if rng.random() < 0.9:
                    files[ent["base"] + "_input"] = "%d\n" % rng.choice(
                        [0, 35000, 40500, 99999, -5000, 123456])
                if rng.random() < 0.6:
                    files[ent["base"] + "_max"] = "%d\n" % rng.choice(
                        [0, 80000, 100000, 65261])
                if rng.random() < 0.6:
                    files[ent["base"] + "_crit"] = "%d\n" % rng.choice(
                        [0, 90000, 100000, 105000])
                if rng.random() < 0.5:
                    files[ent["base"] + "_label"] = rng.choice(
                        ["Core 0", "Package id 0", "edge", " Tctl "]) + "\n"
                if not any(p.startswith(ent["base"] + "_") for p in files):
                    continue
                meta["temps"].append(ent)
            for f in range(1, rng.randrange(0, 3) + 1):
                ent = {"base": "%s/fan%d" % (base, f), "chip": cname,
                       "has_name": has_name}
                if rng.random() < 0.9:
                    files[ent["base"] + "_input"] = "%d\n" % rng.choice(
                        [0, 1200, 4500])
                if rng.random() < 0.5:
                    files[ent["base"] + "_label"] = "fan lbl\n"
                if not any(p.startswith(ent["base"] + "_") for p in files):
                    continue
                meta["fans"].append(ent)
            if not nested and cname.startswith("coretemp") and \
                    rng.random() < 0.5:
                # the same chip is also visible below /sys/devices/platform
                for p in [p for p in files if p.startswith(base + "/temp")]:
                    files[p.replace(HW + "/", "/sys/devices/platform/"
                                    "coretemp.0/hwmon/")] = files[p]
        for z in range(rng.choice([0, 0, 1, 2, 3])):
            base = "%s/thermal_zone%d" % (TZ, z)
            ent = {"base": base}
            if rng.random() < 0.9:
                files[base + "/temp"] = "%d\n" % rng.choice([30000, 45500, 0])
            if rng.random() < 0.95:
                files[base + "/type"] = rng.choice(["x86_pkg_temp", "acpitz",
                                                    "INT3400"]) + "\n"
            kinds = rng.sample(["critical", "high", "passive", "active",
                                "hot"], rng.randrange(0, 5))
            for i, kind in enumerate(kinds):
                files["%s/trip_point_%d_type" % (base, i)] = kind + "\n"
                if rng.random() < 0.9:
                    files["%s/trip_point_%d_temp" % (base, i)] = \
                        "%d\n" % rng.choice([100000, 95000, 80000, 0])
            meta["zones"].append(ent)
        # power supply
        psmode = rng.choice(["absent", "empty", "bat", "bat", "bat", "bat2",
                             "named"])
        meta["ps"] = psmode
        if psmode != "absent":
            files[PS + "/.keep"] = {"t": "d"}
        bats = {"bat": ["BAT0"], "bat2": ["BAT1", "BAT0"],
                "named": ["hid-battery-1"]}.get(psmode, [])
        for bname in bats:
            root = "%s/%s" % (PS, bname)
            scheme = rng.choice(["energy", "charge", "mixed", "capacity"])
            if scheme in ("energy", "mixed"):
                files[root + "/energy_now"] = "%d\n" % rng.choice(
                    [0, 25000000, 40000000])
                files[root + "/energy_full"] = "%d\n" % rng.choice(
                    [0, 50000000, 40000000])
                if rng.random() < 0.8:
                    files[root + "/power_now"] = "%d\n" % rng.choice(
                        [0, 10000000, 7500000])
            if scheme in ("charge", "mixed"):
                files[root + "/charge_now"] = "%d\n" % rng.choice(
                    [1000000, 3000000])
                files[root + "/charge_full"] = "%d\n" % rng.choice(
                    [4000000, 3000000])
                if rng.random() < 0.8:
                    files[root + "/current_now"] = "%d\n" % rng.choice(
                        [0, 1500000])
            if scheme == "capacity" or rng.random() < 0.5:
                files[root + "/capacity"] = "%d\n" % rng.choice([0, 47, 100])
            if rng.random() < 0.4:
                files[root + "/time_to_empty_now"] = "%d\n" % rng.choice(
                    [0, 90, -1])
            if rng.random() < 0.8:
                files[root + "/status"] = rng.choice(
                    ["Discharging", "Charging", "Full", "Unknown",
                     "Not charging"]) + "\n"
        if psmode not in ("absent", "empty") or rng.random() < 0.3:
            if psmode != "absent":
                r = rng.random()
                if r < 0.35:
                    files[PS + "/AC0/online"] = rng.choice(["0\n", "1\n"])
                elif r < 0.6:
                    files[PS + "/AC/online"] = rng.choice(["0\n", "1\n"])
        # cpufreq (must agree with the layout psutil saw at import)
        ids = boot["cpu_ids"]
        layout = boot.get("cpufreq_layout", "none")
        meta["freq"] = []
        for i, c in enumerate(ids):
            if layout == "policy":
                d = "%s/cpufreq/policy%d" % (CPU, c)
            elif layout == "percpu":
                d = "%s/cpu%d/cpufreq" % (CPU, c)
            else:
                break
            cur = rng.choice([800000, 1200000, 2400000, 3601000])
            if rng.random() < 0.85:
                files[d + "/scaling_cur_freq"] = "%d\n" % cur
            elif rng.random() < 0.5:
                files[d + "/cpuinfo_cur_freq"] = "%d\n" % cur
            elif rng.random() < 0.5:
                files["%s/cpu%d/online" % (CPU, i)] = "0\n"
            files[d + "/scaling_max_freq"] = "%d\n" % rng.choice(
                [3000000, 4200000])
            files[d + "/scaling_min_freq"] = "%d\n" % rng.choice(
                [400000, 800000])
            meta["freq"].append(d)
        if layout in ("policy", "percpu") and \
                not any(p.endswith("policy0/scaling_cur_freq") or
                        p.endswith("cpu0/cpufreq/scaling_cur_freq")
                        for p in files):
            pass
        mhz_mode = rng.choice(["match", "fewer", "none"])
        cpuinfo = []
        for i, c in enumerate(ids):
            cpuinfo.append("processor\t: %d\n" % c)
            if mhz_mode == "match" or (mhz_mode == "fewer" and i == 0):
                cpuinfo.append("cpu MHz\t\t: %s\n" % rng.choice(
                    ["2000.000", "1234.567", "800.000"]))
            cpuinfo.append("physical id\t: %d\ncpu cores\t: %d\n\n" % (
                c // 2, 2))
        topo = rng.choice(["core_cpus_list", "thread_siblings_list", "none"])
        if topo != "none":
            # hardware threads per core: 1, 2, 4 (POWER, Xeon Phi) or 8;
            # siblings numbered contiguously ("0-3") or interleaved ("0,4")
            smt = rng.choice([1, 2, 2, 2, 4, 8])
            inter = rng.random() < 0.4
            ncores = max(1, -(-len(ids) // smt))
            groups = {}
            for i, c in enumerate(ids):
                groups.setdefault(i % ncores if inter else i // smt,
                                  []).append(c)
            for g in groups.values():
                txt = cpulist(sorted(g)) + "\n"
                for c in g:
                    files["%s/cpu%d/topology/%s" % (CPU, c, topo)] = txt
        world = {"files": files, "cpuinfo": "".join(cpuinfo),
                 "sysconf_fail": rng.choice([[], [], ["SC_NPROCESSORS_ONLN"]]),
                 # configured-but-offline CPUs (sysconf CONF > ONLN)
                 "ncpu_offline": rng.choice([0, 0, 1, 3]),
                 "stat_misc": {"intr": rng.randrange(0, 2 ** 40),
                               "ctxt": rng.randrange(0, 2 ** 40),
                               "softirq": rng.randrange(0, 2 ** 40)},
                 "wall_offset": 1.6e9 + rng.randrange(0, 10 ** 7) + 0.5,
                 "listdir_order": rng.choice(["sorted", "reversed", "o5"])}
        return world, meta

    # ------------------------------------------------------------------
    # reference (the statement of C19, computed from the tree)
    def ref_temps(self, files, meta, fahrenheit):
        def conv(x):
            if x is None:
                return None
            return x * 9 / 5 + 32 if fahrenheit else x
        out = {}
        have_hwmon = bool(meta["temps"])
        for ent in sorted(meta["temps"], key=lambda e: e["base"]):
            if not any(p.startswith(ent["base"] + "_") for p in files):
                continue
            cur = num(files, ent["base"] + "_input")
            namep = ent["base"].rsplit("/", 1)[0] + "/name"
            if cur is None or cur == "garbage" or not readable(files, namep):
                continue
            hi = num(files, ent["base"] + "_max")
            cr = num(files, ent["base"] + "_crit")
            hi = None if hi in (None, "garbage") else hi / 1000.0
            cr = None if cr in (None, "garbage") else cr / 1000.0
            label = ""
            if readable(files, ent["base"] + "_label"):
                label = data(files, ent["base"] + "_label").strip()
            cur, hi, cr = conv(cur / 1000.0), conv(hi), conv(cr)
            if hi and not cr:
                cr = hi
            elif cr and not hi:
                hi = cr
            unit = data(files, namep).strip()
            out.setdefault(unit, []).append((label, cur, hi, cr))
        still = [e for e in meta["temps"]
                 if any(p.startswith(e["base"] + "_") for p in files)]
        if not still:
            for ent in sorted(meta["zones"], key=lambda e: e["base"]):
                if not any(p.startswith(ent["base"] + "/") for p in files):
                    continue
                cur = num(files, ent["base"] + "/temp")
                if cur in (None, "garbage") or \
                        not readable(files, ent["base"] + "/type"):
                    continue
                hi = cr = None
                for p in sorted(files):
                    if p.startswith(ent["base"] + "/trip_point_") and \
                            p.endswith("_type") and readable(files, p):
                        kind = data(files, p).strip()
                        v = num(files, p[:-5] + "_temp")
                        v = None if v in (None, "garbage") else v / 1000.0
                        if kind == "critical":
                            cr = v
                        elif kind == "high":
                            hi = v
                cur, hi, cr = conv(cur / 1000.0), conv(hi), conv(cr)
                if hi and not cr:
                    cr = hi
                elif cr and not hi:
                    hi = cr
                unit = data(files, ent["base"] + "/type").strip()
                out.setdefault(unit, []).append(("", cur, hi, cr))
        return out

    def ref_fans(self, files, meta):
        out = {}
        direct = [e for e in meta["fans"] if "/device/" not in e["base"] and
                  any(p.startswith(e["base"] + "_") for p in files)]
        nested = [e for e in meta["fans"] if "/device/" in e["base"] and
                  any(p.startswith(e["base"] + "_") for p in files)]
        for ent in sorted(direct or nested, key=lambda e: e["base"]):
            cur = num(files, ent["base"] + "_input", int)
            if cur is None:
                continue
            namep = ent["base"].rsplit("/", 1)[0] + "/name"
            if cur == "garbage" or not readable(files, namep):
                return "NOT_JUDGED"
            label = ""
            if readable(files, ent["base"] + "_label"):
                label = data(files, ent["base"] + "_label").strip()
            out.setdefault(data(files, namep).strip(), []).append(
                (label, cur))
        return out

    def ref_battery(self, files, meta):
        if meta["ps"] == "absent":
            return None
        names = set()
        for p in files:
            if p.startswith(PS + "/"):
                names.add(p[len(PS) + 1:].split("/")[0])
        bats = [n for n in names if n.startswith("BAT") or
                "battery" in n.lower()]
        if not bats:
            return None
        root = "%s/%s" % (PS, min(bats))

        def multi(*paths):
            for p in paths:
                if readable(files, p):
                    try:
                        return int(data(files, p))
                    except ValueError:
                        return "garbage"
            return None
        e_now = multi(root + "/energy_now", root + "/charge_now")
        p_now = multi(root + "/power_now", root + "/current_now")
        e_full = multi(root + "/energy_full", root + "/charge_full")
        tte = multi(root + "/time_to_empty_now")
        if "garbage" in (e_now, p_now, e_full, tte):
            return "NOT_JUDGED"
        if e_full is not None and e_now is not None:
            percent = 100.0 * e_now / e_full if e_full else 0.0
        else:
            cap = num(files, root + "/capacity", int)
            if cap == "garbage":
                return "NOT_JUDGED"
            if cap is None or cap == -1:
                return None
            percent = cap
        online = multi(PS + "/AC0/online", PS + "/AC/online")
        if online == "garbage":
            return "NOT_JUDGED"
        plugged = None
        if online is not None:
            plugged = online == 1
        elif readable(files, root + "/status"):
            st = data(files, root + "/status").strip().lower()
            if st == "discharging":
                plugged = False
            elif st in ("charging", "full"):
                plugged = True
        if plugged:
            secs = "UNLIMITED"
        elif e_now is not None and p_now is not None:
            secs = int(e_now / p_now * 3600) if p_now else "UNKNOWN"
        elif tte is not None:
            secs = int(tte * 60)
            if secs < 0:
                secs = "UNKNOWN"
        else:
            secs = "UNKNOWN"
        return (percent, secs, plugged)

    def ref_cpu_freq(self, files, meta, boot, world):
        layout = boot.get("cpufreq_layout", "none")
        mhz = [float(line.split(":", 1)[1]) for line in
               world["cpuinfo"].splitlines()
               if line.lower().startswith("cpu mhz")]
        if layout == "none":
            return [(x, 0.0, 0.0) for x in mhz]
        dirs = []
        for d in meta["freq"]:
            if any(p.startswith(d + "/") for p in files):
                dirs.append(d)
        if layout == "policy" and not dirs:
            # psutil falls back to the per-cpu glob, which is empty too
            return []
        out = []
        for i, d in enumerate(dirs):
            if len(dirs) == len(mhz):
                cur = mhz[i] * 1000
            else:
                cur = num(files, d + "/scaling_cur_freq", int)
                if cur is None:
                    cur = num(files, d + "/cpuinfo_cur_freq", int)
                if cur is None:
                    onl = "%s/cpu%d/online" % (CPU, i)
                    if readable(files, onl) and data(files, onl) == "0\n":
                        out.append((0.0, 0.0, 0.0))
                        continue
                    return "NOT_JUDGED"
                if cur == "garbage":
                    return "NOT_JUDGED"
            mx = num(files, d + "/scaling_max_freq", int)
            mn = num(files, d + "/scaling_min_freq", int)
            if mx in (None, "garbage") or mn in (None, "garbage"):
                return "NOT_JUDGED"
            out.append((cur / 1000, mn / 1000, mx / 1000))
        return out

    # ------------------------------------------------------------------
    def call(self, psutil, subject):
        if subject == "temps":
            return psutil.sensors_temperatures()
        if subject == "temps_f":
            return psutil.sensors_temperatures(fahrenheit=True)
        if subject == "fans":
            return psutil.sensors_fans()
        if subject == "battery":
            return psutil.sensors_battery()
        if subject == "cpu_freq":
            return psutil.cpu_freq()
        if subject == "cpu_freq_percpu":
            return psutil.cpu_freq(percpu=True)
        if subject == "cpu_count":
            return psutil.cpu_count()
        if subject == "cpu_count_cores":
            return psutil.cpu_count(logical=False)
        if subject == "cpu_stats":
            return psutil.cpu_stats()
        return psutil.boot_time()

    @staticmethod
    def apply_fault(files, path, kind):
        files = dict(files)
        # /sys/class/hwmon/hwmonN and /sys/devices/platform/coretemp.*/hwmon/
        # hwmonN are the same kernel object: a file cannot fail under one
        # name only
        twin = path.replace(HW + "/", "/sys/devices/platform/coretemp.0/"
                            "hwmon/")
        if twin != path and twin in files:
            files = SysFs.apply_fault(files, twin, kind)
        if kind == "absent":
            files.pop(path, None)
        elif kind == "EACCES":
            files[path] = {"t": "f", "data": data(files, path),
                           "open_err": 13}
        elif kind in ("EIO", "ENODEV", "ENXIO"):
            files[path] = {"t": "f", "data": data(files, path),
                           "read_err": {"EIO": 5, "ENODEV": 19,
                                        "ENXIO": 6}[kind]}
        elif kind == "garbage":
            files[path] = {"t": "f", "data": "N/A\n"}
        return files

    @staticmethod
    def file_class(path):
        b = path.rsplit("/", 1)[-1]
        if path.startswith(HW) or "coretemp" in path:
            if b.endswith("_input"):
                return "reading"
            if b.endswith(("_max", "_crit")):
                return "threshold"
            if b.endswith("_label"):
                return "optional"
            return "other"
        if path.startswith(TZ):
            if b == "temp":
                return "reading"
            if b.endswith("_temp"):
                return "threshold"
            if b.endswith("_type") and b.startswith("trip"):
                return "optional"
            return "other"
        if path.startswith(PS):
            if b in ("online", "status", "time_to_empty_now", "power_now",
                     "current_now", "energy_now", "charge_now",
                     "energy_full", "charge_full", "capacity"):
                return "optional"
            return "other"
        return "other"

    def execute(self, W, plan):
        psutil = W.psutil
        world = dict(plan["world"])
        files = {p: (dict(n) if isinstance(n, dict) else n)
                 for p, n in world["files"].items()}
        fault = plan.get("fault")
        if fault:
            files = self.apply_fault(files, fault["path"], fault["kind"])
        world["files"] = files
        k = self.make_kernel(W.boot, world)
        self.install(k)
        viol = []

        def V(clause, tags, api, msg):
            viol.append({"clause": clause, "tags": sorted(set(tags)),
                         "api": api, "msg": msg})

        subject = plan["subject"]
        meta = plan["meta"]
        if subject == "boot_time_history":
            # histories of wall-clock steps (the published btime moves) with
            # boot_time() and Process.create_time() calls in between: every
            # boot_time() must mirror the btime line of that moment
            k.begin_op(1)
            n = 0
            for step in plan.get("steps") or []:
                if step[0] == "step":
                    k.apply_event({"ev": "clock_step", "delta": step[1]})
                    continue
                try:
                    if step[0] == "ctime":
                        psutil.Process(k.self_pid).create_time()
                        continue
                    val = psutil.boot_time()
                except BaseException as e:  # noqa: BLE001
                    if is_harness_exc(e):
                        raise
                    V("C19.exact", [type(e).__name__, "history"], subject,
                      "boot_time() raised %r" % (e,))
                    break
                n += 1
                if val != float(k.btime()):
                    V("C19.exact", ["history", "stale_boot_time"], subject,
                      "boot_time() -> %r after the steps %r, /proc/stat "
                      "says btime %d" % (val, plan["steps"], k.btime()))
                    break
            k.end_op()
            return {"violations": viol, "touched": [], "outcome":
                    "history%d" % n, "digest": k.digest.hexdigest(),
                    "stats": dict(k.stats)}
        norm = {p: (n if isinstance(n, dict) else {"t": "f", "data": n})
                for p, n in files.items()}
        for n in norm.values():
            if isinstance(n.get("data"), bytes):
                n["data"] = n["data"].decode("latin-1")
        if plan.get("warm_hide"):
            # an earlier call of the same function saw another tree (a CPU /
            # chip / battery that was not there yet): the judged call must
            # describe the tree it runs against
            hidden = {p_: k.files.pop(p_) for p_ in list(k.files)
                      if p_.startswith(plan["warm_hide"])}
            k._dirs = None
            k.begin_op(5)
            try:
                self.call(psutil, subject)
            except BaseException as e:  # noqa: BLE001
                if is_harness_exc(e):
                    raise
            k.end_op()
            k.files.update(hidden)
            k._dirs = None
        acc0 = len(k.acclog)
        k.begin_op(1)
        try:
            out = ("value", self.call(psutil, subject))
        except BaseException as e:  # noqa: BLE001
            if is_harness_exc(e):
                raise
            out = ("exc", e)
        k.end_op()
        touched = sorted({a[4] for a in k.acclog[acc0:]
                          if a[3] == "open" and isinstance(a[4], str)})
        res = {"violations": viol, "touched": touched,
               "digest": k.digest.hexdigest(), "stats": dict(k.stats)}
        fclass = self.file_class(fault["path"]) if fault else "none"
        tags = []
        if fault:
            tags = [fault["kind"], "file=" + fclass + ":" +
                    fault["path"].rsplit("/", 1)[-1].lstrip("0123456789")]
        promised = fclass in ("none", "reading", "threshold", "optional")
        if fault and fault["kind"] == "garbage" and fclass != "threshold":
            promised = False
        res["outcome"] = "value" if out[0] == "value" else type(
            out[1]).__name__
        if out[0] == "exc" and subject == "fans" and \
                self.ref_fans(norm, meta) == "NOT_JUDGED":
            return res
        if out[0] == "exc" and subject == "battery" and \
                self.ref_battery(norm, meta) == "NOT_JUDGED":
            return res
        if out[0] == "exc":
            if promised and subject in ("temps", "temps_f", "fans",
                                        "battery"):
                V("C19.skip_not_fail" if fault else "C19.exact",
                  tags + [type(out[1]).__name__], subject,
                  "%s raised %r%s" % (subject, out[1], (
                      " with %s %s" % (fault["path"], fault["kind"]))
                      if fault else ""))
            elif not fault and subject not in ("cpu_freq",
                                               "cpu_freq_percpu"):
                V("C19.exact", tags + [type(out[1]).__name__], subject,
                  "%s raised %r on a fault-free tree" % (subject, out[1]))
            elif not fault and self.ref_cpu_freq(
                    norm, meta, W.boot, plan["world"]) != "NOT_JUDGED":
                # every CPU's files are there (or the CPU is marked offline,
                # which reads as zeroes): nothing to give up on
                V("C19.exact", tags + [type(out[1]).__name__], subject,
                  "%s raised %r on a tree where every listed CPU has its "
                  "frequency files or is offline" % (subject, out[1]))
            return res
        val = out[1]
        if not promised:
            return res
        clause = "C19.skip_not_fail" if fault else "C19.exact"

        def close(a, b):
            if a is None or b is None:
                return a is b
            return abs(a - b) <= 1e-9 * max(1.0, abs(b))

        if subject in ("temps", "temps_f"):
            want = self.ref_temps(norm, meta, subject == "temps_f")
            got = {u: [tuple(x) for x in lst] for u, lst in val.items()}
            ok = set(got) == set(want)
            if ok:
                for u in want:
                    if len(got[u]) != len(want[u]):
                        ok = False
                        break
                    for g, w in zip(got[u], want[u]):
                        if g[0] != w[0] or not all(
                                close(g[i], w[i]) for i in (1, 2, 3)):
                            ok = False
            if not ok:
                t = list(tags)
                if not want and got:
                    t.append("expected_empty")
                if any(x is not None and x < 1.0 and x != 0.0
                       for lst in got.values() for e in lst
                       for x in e[2:4]):
                    t.append("threshold_divided_twice")
                V(clause, t, subject, "%s -> %r, tree says %r" % (
                    subject, got, want))
        elif subject == "fans":
            want = self.ref_fans(norm, meta)
            if want != "NOT_JUDGED":
                got = {u: [tuple(x) for x in lst] for u, lst in val.items()}
                if got != want:
                    V(clause, tags, subject, "sensors_fans -> %r, tree says "
                      "%r" % (got, want))
        elif subject == "battery":
            want = self.ref_battery(norm, meta)
            if want != "NOT_JUDGED":
                if want is None or val is None:
                    if want is not val:
                        V("C19.empty" if want is None else clause, tags,
                          subject, "sensors_battery -> %r, tree says %r" % (
                              val, want))
                else:
                    secs = {psutil.POWER_TIME_UNLIMITED: "UNLIMITED",
                            psutil.POWER_TIME_UNKNOWN: "UNKNOWN"}.get(
                                val.secsleft, val.secsleft)
                    if not close(float(val.percent), float(want[0])) or \
                            secs != want[1] or val.power_plugged != want[2]:
                        V(clause, tags, subject, "sensors_battery -> %r, "
                          "tree says percent=%r secsleft=%r plugged=%r" % (
                              val, want[0], want[1], want[2]))
        elif subject in ("cpu_freq", "cpu_freq_percpu"):
            want = self.ref_cpu_freq(norm, meta, W.boot, plan["world"])
            if want != "NOT_JUDGED" and not fault:
                if subject == "cpu_freq_percpu":
                    got = [tuple(x) for x in val]
                    if len(got) != len(want) or not all(
                            close(g[i], w[i]) for g, w in zip(got, want)
                            for i in range(3)):
                        V(clause, tags, subject, "cpu_freq(percpu=True) -> "
                          "%r, tree says %r" % (got, want))
                else:
                    if not want:
                        exp = None
                    elif len(want) == 1:
                        exp = want[0]
                    else:
                        n = float(len(want))
                        exp = (sum(w[0] for w in want) / n,
                               sum(w[1] for w in want) / n,
                               sum(w[2] for w in want) / n)
                    got = tuple(val) if val is not None else None
                    if (exp is None) != (got is None) or (
                            exp is not None and not all(
                                close(got[i], exp[i]) for i in range(3))):
                        V(clause, tags, subject, "cpu_freq() -> %r, mean "
                          "over CPUs is %r" % (got, exp))
        elif subject == "cpu_count" and not fault:
            if "SC_NPROCESSORS_ONLN" not in (world.get("sysconf_fail") or ()):
                want = k.ncpu_online
            else:
                want = sum(1 for line in world["cpuinfo"].splitlines()
                           if line.lower().startswith("processor"))
            if val != want:
                V(clause, tags, subject, "cpu_count() -> %r, expected %r" % (
                    val, want))
        elif subject == "cpu_count_cores" and not fault:
            topo = [p for p in norm if "/topology/core_cpus_list" in p] or \
                [p for p in norm if "/topology/thread_siblings_list" in p]
            if topo:
                want = len({data(norm, p).strip() for p in topo})
            else:
                m = {}
                for blk in world["cpuinfo"].split("\n\n"):
                    d = {}
                    for line in blk.splitlines():
                        if "\t:" in line:
                            a, b = line.split("\t:", 1)
                            d[a.strip().lower()] = b.strip()
                    if "physical id" in d and "cpu cores" in d:
                        m[int(d["physical id"])] = int(d["cpu cores"])
                want = sum(m.values()) or None
            if val != want:
                V(clause, tags, subject, "cpu_count(logical=False) -> %r, "
                  "expected %r" % (val, want))
        elif subject == "cpu_stats" and not fault:
            sm = world["stat_misc"]
            if (val.ctx_switches, val.interrupts, val.soft_interrupts,
                    val.syscalls) != (sm["ctxt"], sm["intr"], sm["softirq"],
                                      0):
                V(clause, tags, subject, "cpu_stats() -> %r, /proc/stat "
                  "says %r" % (val, sm))
        elif subject == "boot_time" and not fault:
            if val != float(k.btime()):
                V(clause, tags, subject, "boot_time() -> %r, btime %r" % (
                    val, k.btime()))
        return res

    def run_unit(self, W, unit_seed, tier):
        rng = self.rng("sys", unit_seed)
        world, meta = self.gen_world(rng, W.boot)
        u = {"evals": 0, "keys": set(), "stats": {}, "violations": [],
             "harness_errors": [], "timeouts": 0, "digest_checks": 0}
        sample = None
        for subject in SUBJECTS:
            base = {"world": world, "meta": meta, "subject": subject,
                    "fault": None}
            if subject == "boot_time_history":
                steps = []
                for _ in range(rng.randrange(3, 10)):
                    r = rng.random()
                    if r < 0.45:
                        steps.append(["step", rng.choice(
                            [1, -1, 1, -1, 2, -2, 0.5, 3600, -86400, 0])])
                    elif r < 0.9:
                        steps.append(["call"])
                    else:
                        steps.append(["ctime"])
                steps.append(["call"])
                base["steps"] = steps
            dry = W.execute_forked(base)
            u["evals"] += 1
            if not self._absorb(u, base, dry, (subject, "nofault", "-")):
                continue
            sysf = sorted(p_ for p_ in dry.get("touched") or []
                          if p_ in world["files"] and p_.startswith("/sys"))
            if sysf and subject not in ("boot_time", "boot_time_history"):
                for _ in range(2):
                    d_ = rng.choice(sysf).rsplit("/", 1)[0] + "/"
                    wp = dict(base, warm_hide=d_)
                    r = W.execute_forked(wp)
                    u["evals"] += 1
                    self._absorb(u, wp, r, (subject, "after_other_tree",
                                            "-"))
            if subject not in ("temps", "temps_f", "fans", "battery",
                               "cpu_freq_percpu"):
                continue
            for path in dry.get("touched") or []:
                if path not in world["files"] or not path.startswith("/sys"):
                    continue
                fc = self.file_class(path)
                for kind in FAULTS:
                    if kind == "garbage" and fc != "threshold":
                        continue
                    plan = dict(base, fault={"path": path, "kind": kind})
                    r = W.execute_forked(plan)
                    u["evals"] += 1
                    self._absorb(u, plan, r, (subject, kind, fc + ":" +
                                              path.rsplit("/", 1)[-1].lstrip(
                                                  "0123456789")))
                    u["stats"]["fault_" + kind] = u["stats"].get(
                        "fault_" + kind, 0) + 1
                    if sample is None and fc == "reading":
                        sample = {"subject": subject, "fault": plan["fault"],
                                  "outcome": (r or {}).get("outcome")}
        u["sample"] = sample
        return u

    def _absorb(self, u, plan, r, keybase):
        if not isinstance(r, dict) or r.get("timeout"):
            u["timeouts"] += 1
            u["harness_errors"].append("timeout")
            return False
        if "harness_error" in r:
            u["harness_errors"].append(r["harness_error"] + " " +
                                       r.get("tb", "")[-700:])
            return False
        u["keys"].add("|".join(keybase) + "|" + str(r.get("outcome")))
        for v in r.get("violations") or []:
            u["violations"].append({"sig": list(sig_of(v)), "msg": v["msg"],
                                    "plan": plan})
        return True


SysFs.RULE = (
    "per seeded hardware tree (0-4 hwmon chips direct or device/-nested with "
    "any subset of input/max/crit/label/name files, coretemp duplicates, 0-3 "
    "thermal zones with trip points, power_supply absent/empty/BAT*/named "
    "with either file naming + AC adapter, policy/per-cpu/no cpufreq layout, "
    "cpuinfo variants, topology files): each subject runs fault-free "
    "(compared exactly with a reference computed from the tree) and then "
    "once per (sysfs file it opened) x {absent, EACCES, EIO, ENODEV, ENXIO, "
    "non-numeric threshold}; distinct+non-trivial = (subject, fault kind, "
    "file class:name, outcome)")
SysFs.ASSUMPTIONS = [
    "faults on files the statement promises no tolerance for (a chip's name, "
    "scaling_max/min_freq, zone type, /proc files) are executed but not "
    "judged",
    "at most one 'critical' and one 'high' trip point per thermal zone (the "
    "statement does not say which one wins otherwise)",
    "non-numeric content is injected in threshold files only",
]
SysFs.COMPONENTS = {
    "real": ["psutil/_pslinux.py (sensors_*, cpu_freq, cpu_count_*, "
             "cpu_stats, boot_time)", "psutil/__init__.py (Fahrenheit / "
             "back-fill / cpu_freq mean)", "psutil/_common.py (cat/bcat)"],
    "stub": ["/sys/class/hwmon, /sys/class/thermal, /sys/class/power_supply, "
             "/sys/devices/system/cpu, /proc/cpuinfo, /proc/stat (SimKernel "
             "VFS)", "glob, os.listdir, os.path.exists over the VFS"],
}
SysFs.PROBES = ["fault_absent", "fault_EACCES", "fault_EIO", "fault_ENODEV",
                "fault_ENXIO", "fault_garbage"]

ENGINE = SysFs()
