"""threads engine -- C16 (oneshot()/as_dict() histories and interleavings) and
the threaded legs of C04, C07, C10.

Single-thread histories run without the scheduler.  Threaded programs run
real threads under the baton scheduler (sim/sched.py) with pre-emption points
at every seam call, every source line of the psutil package and every
simulated-lock operation; a plan fixes the interleaving completely.
"""

import json

from .base import EngineBase, exc_class, is_harness_exc
from .. import gen, seams
from ..sched import Sched
from ..runner import sig_of
from .counters import WrapModel, net_raw, NET_FIELDS

T = 42                      # pid of the observed process

SINGLE_SOURCE = {
    # getter -> procfs file it depends on (single-source getters only)
    "name": "stat", "ppid": "stat", "status": "stat", "cpu_times": "stat",
    "cpu_num": "stat", "terminal": "stat",
    "uids": "status", "gids": "status", "num_threads": "status",
    "num_ctx_switches": "status",
    "memory_info": "statm", "cmdline": "cmdline", "num_fds": "fd",
    "nice": None,
}
ALL_GETTERS = list(SINGLE_SOURCE) + ["username", "memory_maps",
                                     "memory_full_info", "environ", "cwd",
                                     "io_counters", "threads", "ionice",
                                     "cpu_affinity", "open_files"]
STAT_GETTERS = ("name", "status", "cpu_times", "cpu_num", "terminal")
# the shared / memoised source each getter is documented to be served from
# inside a oneshot() block ("on Linux the per-process stat, status and smaps
# records", plus the memoised memory_info); getters not listed here consult
# the OS afresh on every call, zombie probes included
SERVED_BY = {
    "name": ("stat",), "status": ("stat",), "ppid": ("stat",),
    "cpu_times": ("stat",), "cpu_num": ("stat",), "terminal": ("stat",),
    "uids": ("status",), "gids": ("status",), "num_threads": ("status",),
    "num_ctx_switches": ("status",), "username": ("status",),
    "cpu_affinity": ("status",),
    "memory_maps": ("smaps",), "memory_full_info": ("smaps",),
    "memory_info": ("statm",), "memory_percent": ("statm",),
}
# getters answered from the block's cached records alone (no further OS
# access): asked twice inside one block they answer the same
REPEAT_STABLE = ("ppid", "status", "cpu_times", "cpu_num", "uids", "gids",
                 "num_threads", "num_ctx_switches", "memory_info")
FILES = ("stat", "status", "smaps", "statm", "cmdline", "environ", "io",
         "smaps_rollup")
SHARED_SOURCES = ("stat", "status", "smaps")


def call_getter(p, name):
    return getattr(p, name)()


class _BlockBoom(Exception):
    pass


def make_attrs(spec):
    """Plan value -> the object handed to as_dict(attrs=...)."""
    if not (isinstance(spec, dict) and "iterable" in spec):
        return spec
    names = ["name", "status"]
    kind = spec["iterable"]
    if kind == "generator":
        return (n for n in names)
    if kind == "dict":
        return {n: 1 for n in names}
    if kind == "iterator":
        return iter(names)
    if kind == "map":
        return map(str, names)
    if kind == "dict_keys":
        return {n: 1 for n in names}.keys()
    return b"name"


def gen_change(rng):
    """A kernel-side change of the observed process."""
    r = rng.random()
    if r < 0.3:
        return {"ev": "proc_tick", "pid": T, "utime": rng.randrange(1, 500),
                "stime": rng.randrange(1, 500)}
    if r < 0.5:
        return {"ev": "setattr", "pid": T, "attrs": {
            "comm": rng.choice(["aa", "bb", "c c", "dd)", "eeee"])}}
    if r < 0.65:
        u = rng.choice([0, 1000, 4242])
        return {"ev": "setattr", "pid": T, "attrs": {
            "uids": [u, u, u], "gids": [u, u, u]}}
    if r < 0.75:
        return {"ev": "setattr", "pid": T, "attrs": {
            "state": rng.choice(["S", "R", "D", "T"]),
            "cpu": rng.randrange(0, 4)}}
    if r < 0.85:
        return {"ev": "setattr", "pid": T, "attrs": {
            "statm": [rng.randrange(0, 10 ** 5) for _ in range(7)],
            "ctxsw": [rng.randrange(0, 10 ** 5), rng.randrange(0, 10 ** 5)]}}
    if r < 0.93:
        return {"ev": "setattr", "pid": T, "attrs": {
            "ppid": rng.choice([1, 1000]), "nice": rng.randrange(-5, 15)}}
    return {"ev": "setattr", "pid": T, "attrs": {
        "cmdline": rng.choice(["/bin/a\x00", "/bin/b\x00-x\x00", "q r s"])}}


class Threads(EngineBase):
    name = "threads"
    SHRINK_LISTS = [("preempt",), ("threads", 0), ("threads", 1),
                    ("threads", 2), ("ops",)]

    def boot_config(self, rng):
        b = EngineBase.boot_config(self, rng)
        b["has_io"] = True
        ticks = {}
        for c in b["cpu_ids"]:
            ticks[str(c)] = [rng.randrange(0, 5000) for _ in range(10)]
        b["cpu_ticks"] = ticks
        if rng.random() < 0.3:
            # a CPU went offline earlier: its accumulated time stays in the
            # "cpu" total line only
            b["cpu_offline"] = [rng.randrange(0, 5000) for _ in range(10)]
        if rng.random() < 0.1:
            # /proc/stat cannot be read while psutil is imported: no
            # import-time sample, the field layout is learnt later
            b["import_deny"] = {"/proc/stat": 13}
        return b

    def target_world(self, rng):
        files = {}
        pr = gen.gen_proc(rng, T, 1, files, rich=True, start=300400)
        pr["comm"] = rng.choice(["aa", "bb", "tgt"])
        pr["cmdline"] = "/bin/tgt\x00-v\x00"
        pr["exe"] = "/bin/tgt"
        return {"procs": [pr], "files": files, "mono0": 51000.0}

    # ==================================================================
    # C16 single-thread histories
    def gen_C16s(self, rng, tier):
        world = self.target_world(rng)
        ops = []
        n = rng.randrange(6, 26 if tier == "quick" else 50)
        if rng.random() < 0.12:
            # targeted prefix: a nested block (or as_dict()) inside an outer
            # one is left normally or by an exception, then the outer one;
            # whatever happened, the *next* block caches again
            ops.append({"op": "enter"})
            if rng.random() < 0.5:
                ops.append({"op": "get", "m": rng.choice(STAT_GETTERS)})
            ops.append({"op": "enter"})
            if rng.random() < 0.5:
                ops.append({"op": "get", "m": rng.choice(ALL_GETTERS)})
            ops.append({"op": rng.choice(["exit_exc", "exit_exc", "exit"])})
            ops.append({"op": rng.choice(["exit_exc", "exit"])})
            if rng.random() < 0.4:
                ops.append({"op": "ev", "ev": gen_change(rng)})
            ops.append({"op": "enter"})
            for _ in range(rng.randrange(2, 4)):
                ops.append({"op": "get", "m": rng.choice(STAT_GETTERS)})
            if rng.random() < 0.5:
                ops.append({"op": "exit"})
        if rng.random() < 0.10:
            # targeted prefix: one getter asked twice in one block with the
            # process changing, turning zombie or leaving in between
            g_ = rng.choice(REPEAT_STABLE)
            ops.append({"op": "enter"})
            if rng.random() < 0.3:
                ops.append({"op": "get", "m": rng.choice(STAT_GETTERS)})
            ops.append({"op": "get", "m": g_})
            ops.append({"op": "ev", "ev": rng.choice([
                gen_change(rng), gen_change(rng),
                {"ev": "zombify", "pid": T}, {"ev": "vanish", "pid": T},
                {"ev": "vanish", "pid": T}])})
            ops.append({"op": "get", "m": g_})
            if rng.random() < 0.5:
                ops.append({"op": "exit"})
        for _ in range(n):
            r = rng.random()
            if r < 0.14:
                ops.append({"op": "enter"})
                if rng.random() < 0.15:
                    ops[-1]["interrupt_at"] = rng.randrange(1, 16)
            elif r < 0.26:
                ops.append({"op": rng.choice(["exit", "exit", "exit_exc"])})
            elif r < 0.30:
                ops.append({"op": "str", "how": rng.choice(["str", "repr"])})
            elif r < 0.33:
                # the caller changes a setting of the process (inside a
                # block too): the block's records stay what they are
                ops.append({"op": "set", "m": rng.choice(
                    ["cpu_affinity", "cpu_affinity", "nice", "ionice"])})
            elif r < 0.62:
                ops.append({"op": "get", "m": rng.choice(ALL_GETTERS)})
                if rng.random() < 0.06:
                    ops[-1] = rng.choice([
                        {"op": "get", "m": "environ", "esrch": "environ"},
                        {"op": "get", "m": "io_counters", "esrch": "io"}])
            elif r < 0.74:
                k_ = rng.random()
                if k_ < 0.55:
                    attrs = sorted(rng.sample(ALL_GETTERS + ["pid"],
                                              rng.randrange(1, 6)))
                elif k_ < 0.7:
                    attrs = None
                elif k_ < 0.8:
                    # one unknown name among valid ones (a set is walked
                    # in hash order: the unknown one may come last)
                    attrs = sorted(rng.sample(ALL_GETTERS, rng.randrange(
                        1, 6))) + [rng.choice(
                            ["bogus_attr", "nam", "Name", "cpu_time", "pidd",
                             "x", "zz_top", "memory", "open_file", "io"])
                        + rng.choice(["", "", "_", "2"])]
                    if rng.random() < 0.4:
                        # names of the class that are no getters: as unknown
                        # to as_dict() as any other
                        attrs[-1] = rng.choice([
                            "children", "parent", "parents", "is_running",
                            "oneshot", "as_dict", "wait", "kill", "terminate",
                            "send_signal", "suspend", "resume", "info",
                            "returncode", "_name", "__class__"])
                elif k_ < 0.9:
                    # not a collection (JSON cannot carry a generator:
                    # {"iterable": kind} is turned into one when executed)
                    attrs = rng.choice(["name", "name", 7,
                                        {"iterable": "generator"},
                                        {"iterable": "dict"},
                                        {"iterable": "iterator"},
                                        {"iterable": "map"},
                                        {"iterable": "dict_keys"},
                                        {"iterable": "bytes"}])
                else:
                    attrs = []
                op_ = {"op": "as_dict", "attrs": attrs}
                if isinstance(attrs, list) and attrs and k_ < 0.55 and \
                        rng.random() < 0.3:
                    # a name given twice is still one key
                    op_["dup"] = [rng.choice(attrs) for _ in range(
                        rng.randrange(1, 3))]
                if rng.random() < 0.35:
                    # (a refusal of /proc/<pid>/stat itself is C03's
                    # business: it trips the identity re-check, KF-C03-1)
                    op_["deny"] = rng.choice(["status", "statm", "cmdline",
                                              "environ", "fd", "io", "exe",
                                              "cwd", "smaps"])
                ops.append(op_)
            elif r < 0.95:
                ops.append({"op": "ev", "ev": gen_change(rng)})
            elif r < 0.98:
                ops.append({"op": "ev", "ev": {"ev": "zombify", "pid": T}})
            else:
                # the process ends and is reaped (inside a block: what the
                # block has read stays what it answers from)
                ops.append({"op": "ev", "ev": {"ev": "vanish", "pid": T}})
        for j, op in enumerate(ops):
            op["id"] = j
        return {"prog": "C16s", "world": world, "ops": ops, "preempt": [],
                "threads": []}

    def _eval(self, psutil, k, name, procs_override=None, pins=None):
        """Reference: what `name` returns on a fresh handle outside oneshot
        in a quiet view of the kernel."""
        ek = k.view(procs_override, pins)
        ek.deny = dict(k.deny)
        saved = seams.State.kernel
        seams.State.kernel = ek
        try:
            try:
                p = psutil.Process(T)
                return ("value", call_getter(p, name))
            except BaseException as e:  # noqa: BLE001
                if is_harness_exc(e):
                    raise
                return ("exc", exc_class(psutil, e))
        finally:
            seams.State.kernel = saved

    @staticmethod
    def _same(a, b):
        if a[0] != b[0]:
            return False
        if a[0] == "exc":
            return a[1] == b[1]
        return a[1] == b[1] and type(a[1]) is type(b[1])

    def exec_C16s(self, W, plan):
        import copy
        psutil = W.psutil
        k = self.make_kernel(W.boot, plan["world"])
        k.watch = (T,)
        self.install(k)
        k.bump()
        viol, keys, probes, sample = [], set(), {}, []

        def V(clause, tags, api, msg):
            viol.append({"clause": clause, "tags": sorted(set(tags)),
                         "api": api, "msg": msg})

        k.begin_op(0)
        p = psutil.Process(T)
        k.end_op()
        stack = []              # active context managers
        block = None            # {"first": {what: version}, "opens": {...}}
        just_exited = False
        for idx, op in enumerate(plan["ops"], start=1):
            kind = op["op"]
            if kind == "ev":
                k.apply_event(op["ev"])
                continue
            acc0 = len(k.acclog)
            k.begin_op(idx)
            exc_cls = None
            try:
                if kind == "enter" and op.get("interrupt_at"):
                    # an asynchronous exception (a signal handler raising a
                    # timeout, KeyboardInterrupt) lands on the n-th source
                    # line oneshot() executes while the block is entered
                    import sys as _sys
                    seen_ = [0]

                    def _local(frame, event, arg):
                        if event == "line":
                            seen_[0] += 1
                            if seen_[0] == op["interrupt_at"]:
                                raise _BlockBoom()
                        return _local

                    def _tracer(frame, event, arg):
                        co = frame.f_code
                        if co.co_name == "oneshot" and \
                                co.co_filename.endswith("psutil/__init__.py"):
                            return _local
                        return None

                    cm = p.oneshot()
                    _sys.settrace(_tracer)
                    try:
                        cm.__enter__()
                        stack.append(cm)
                    except _BlockBoom:
                        kind = "enter_failed"
                        probes["block_entry_interrupted"] = probes.get(
                            "block_entry_interrupted", 0) + 1
                    finally:
                        _sys.settrace(None)
                    out = ("value", None)
                elif kind == "enter":
                    cm = p.oneshot()
                    cm.__enter__()
                    stack.append(cm)
                    out = ("value", None)
                elif kind in ("exit", "exit_exc"):
                    if stack:
                        cm = stack.pop()
                        if kind == "exit":
                            cm.__exit__(None, None, None)
                        else:
                            err = RuntimeError("boom")
                            try:
                                cm.__exit__(RuntimeError, err, None)
                            except RuntimeError:
                                pass
                    out = ("value", None)
                elif kind == "str":
                    out = ("value", op["how"] == "repr" and repr(p) or str(p))
                elif kind == "set":
                    if op["m"] == "cpu_affinity":
                        p.cpu_affinity([W.boot["cpu_ids"][0]])
                    elif op["m"] == "nice":
                        p.nice(7)
                    else:
                        p.ionice(psutil.IOPRIO_CLASS_BE, 5)
                    out = ("value", None)
                elif kind == "get":
                    if op.get("esrch"):
                        # this one record answers ESRCH although the process
                        # lives (kernel threads' environ, a task in exit):
                        # the getter may fail, the block's records stay
                        k.deny = {"/proc/%d/%s" % (T, op["esrch"]): 3}
                    try:
                        out = ("value", call_getter(p, op["m"]))
                    finally:
                        k.deny = {}
                else:
                    if op.get("deny"):
                        k.deny = {"/proc/%d/%s" % (T, op["deny"]): 13}
                    try:
                        out = ("value", p.as_dict(
                            attrs=make_attrs(op["attrs"]), ad_value="<ad>"))
                    finally:
                        pass
            except BaseException as e:  # noqa: BLE001
                if is_harness_exc(e):
                    raise
                out = ("exc", e)
            k.end_op()
            if kind in ("get", "as_dict") and out[0] == "value":
                # what psutil hands out belongs to the caller, who may edit
                # it in place; psutil's later answers must not change
                import copy as _copy
                orig_ = out[1]
                out = ("value", _copy.deepcopy(orig_))
                for v_ in ([orig_] + (list(orig_.values()) if isinstance(
                        orig_, dict) else [])):
                    try:
                        if isinstance(v_, list):
                            v_.append("<edited by the caller>")
                        elif isinstance(v_, dict):
                            v_["<edited by the caller>"] = 1
                    except Exception:  # noqa: BLE001
                        pass
            acc = [a for a in k.acclog[acc0:] if a[2] >= 0]
            if kind == "as_dict" and op.get("dup") and not stack and \
                    not op.get("deny") and out[0] == "value":
                # differential: the same call again, then with some names
                # repeated - same OS accesses, same answer
                res_, tr_ = [], []
                for attrs_ in (op["attrs"], op["attrs"] + op["dup"]):
                    a0_ = len(k.acclog)
                    k.begin_op(idx)
                    try:
                        res_.append(("value", p.as_dict(attrs=attrs_,
                                                        ad_value="<ad>")))
                    except BaseException as e:  # noqa: BLE001
                        if is_harness_exc(e):
                            raise
                        res_.append(("exc", repr(e)))
                    k.end_op()
                    tr_.append([(a[3], str(a[4])) for a in k.acclog[a0_:]
                                if a[2] >= 0])
                if tr_[0] != tr_[1] or repr(res_[0]) != repr(res_[1]):
                    V("C16.as_dict", ["duplicate_names"], "as_dict",
                      "as_dict(attrs=%r) differs from as_dict(attrs=%r): %d "
                      "vs %d OS accesses, %s" % (
                          op["attrs"] + op["dup"], op["attrs"], len(tr_[1]),
                          len(tr_[0]), "same answer" if repr(res_[0]) ==
                          repr(res_[1]) else "different answers"))
                else:
                    probes["duplicate_names_checked"] = probes.get(
                        "duplicate_names_checked", 0) + 1
            reads = {}
            allreads = []
            opens = {}
            opens_all = {}
            for a in acc:
                if a[5] == T and isinstance(a[4], str) and \
                        a[4].startswith("/proc/%d/" % T):
                    what = a[4][len("/proc/%d/" % T):]
                    if "/" in what:
                        continue
                    if a[3] == "read":
                        reads.setdefault(what, a[7])
                        allreads.append((what, a[7]))
                    if a[3] == "open":
                        opens_all[what] = opens_all.get(what, 0) + 1
                    if a[3] == "open":
                        # stat is also read by identity re-checks made through
                        # *other* Process objects (ppid() -> is_running()) and
                        # by zombie probes: only the getters that are served
                        # by the cached stat record are counted for it
                        if what == "stat" and not (
                                kind == "get" and op["m"] in STAT_GETTERS):
                            continue
                        opens[what] = opens.get(what, 0) + 1
            in_block = bool(stack) or (kind in ("exit", "exit_exc"))
            if kind == "enter_failed":
                # the block was never entered: nothing may stay behind
                if not stack:
                    block = None
                    just_exited = True
                continue
            # ---- bookkeeping of the block
            if kind == "enter":
                if len(stack) == 1:
                    block = {"first": {}, "opens": {}, "getters_only": True,
                             "nested": False}
                else:
                    block["nested"] = True
                    probes["nested_enter"] = probes.get("nested_enter", 0) + 1
                if out[0] == "exc":
                    V("C16.exception", [type(out[1]).__name__], "oneshot",
                      "entering oneshot() raised %r" % (out[1],))
                continue
            if kind in ("exit", "exit_exc"):
                if out[0] == "exc":
                    V("C16.exception", [type(out[1]).__name__], "oneshot",
                      "leaving oneshot() raised %r" % (out[1],))
                if not stack:
                    if block is not None:
                        just_exited = True
                        probes["block_exit_" + kind] = probes.get(
                            "block_exit_" + kind, 0) + 1
                    block = None
                continue
            zombie = T in k.procs and k.procs[T].zombie
            if kind == "set":
                if out[0] == "exc" and exc_class(psutil, out[1]) not in (
                        "NSP", "ZP", "AD"):
                    V("C16.exception", [type(out[1]).__name__], op["m"],
                      "%s(value) raised %r" % (op["m"], out[1]))
                elif stack and block is not None:
                    for w, v in reads.items():
                        block["first"].setdefault(w, v)
                    block.setdefault("allreads", []).extend(allreads)
                    for w, n in opens.items():
                        block["opens"][w] = block["opens"].get(w, 0) + n
                    probes["setter_inside_block"] = probes.get(
                        "setter_inside_block", 0) + 1
                just_exited = False
                continue
            if kind == "str":
                # printing the object (logging, a debugger) is an implicit
                # nested block: it changes nothing for the enclosing one
                if out[0] == "exc":
                    V("C16.exception", [type(out[1]).__name__], "str",
                      "str(process) raised %r" % (out[1],))
                elif stack and block is not None:
                    block["nested"] = True
                    for w, v in reads.items():
                        block["first"].setdefault(w, v)
                    block.setdefault("allreads", []).extend(allreads)
                    for w, n in opens.items():
                        block["opens"][w] = block["opens"].get(w, 0) + n
                    probes["printed_inside_block"] = probes.get(
                        "printed_inside_block", 0) + 1
                just_exited = False
                continue
            if kind == "as_dict":
                self._check_as_dict(psutil, k, V, op, out, acc, zombie,
                                    block, stack, probes)
                k.deny = {}
                if block is not None:
                    if op.get("deny"):
                        block["faulted"] = True   # refusals are not cached
                    for w, v in reads.items():
                        block["first"].setdefault(w, v)
                    block.setdefault("allreads", []).extend(allreads)
                    for w, n in opens.items():
                        block["opens"][w] = block["opens"].get(w, 0) + n
                keys.add("C16s|as_dict|%s|%s" % (
                    "block" if stack else "plain",
                    out[0] if out[0] == "value" else exc_class(psutil,
                                                               out[1])))
                just_exited = False
                continue
            # ---- a getter
            name = op["m"]
            got = out if out[0] == "value" else ("exc", exc_class(psutil,
                                                                  out[1]))
            if out[0] == "exc" and got[1] not in ("NSP", "ZP", "AD"):
                V("C16.exception", [got[1]], name, "%s() raised %r" % (
                    name, out[1]))
                continue
            if op.get("esrch"):
                if stack:
                    for w, v in reads.items():
                        block["first"].setdefault(w, v)
                    block.setdefault("allreads", []).extend(allreads)
                    for w, n in opens.items():
                        block["opens"][w] = block["opens"].get(w, 0) + n
                    probes["getter_failed_esrch_in_block"] = probes.get(
                        "getter_failed_esrch_in_block", 0) + 1
                just_exited = False
                continue
            if stack:
                for w, v in reads.items():
                    block["first"].setdefault(w, v)
                block.setdefault("allreads", []).extend(allreads)
                for w, n in opens.items():
                    block["opens"][w] = block["opens"].get(w, 0) + n
                # read-once for the shared sources
                for w in SHARED_SOURCES:
                    if block["opens"].get(w, 0) > 1 and not zombie and \
                            T in k.procs and not block.get("faulted"):
                        V("C16.read_once", [w] + (["nested"] if
                                                  block["nested"] else []),
                          name, "/proc/<pid>/%s opened %d times inside one "
                          "oneshot() block" % (w, block["opens"][w]))
                        block["opens"][w] = -10 ** 6
                # asked twice in one block: the second answer is the first
                # (getters whose answer comes from the block's records only)
                if name in REPEAT_STABLE and not block.get("faulted"):
                    prev = block.setdefault("answers", {}).get(name)
                    if prev is None:
                        if got[0] == "value":
                            block["answers"][name] = got
                    elif not self._same(prev, got):
                        V("C16.same_answer", ["repeat"] + (
                            ["nested"] if block["nested"] else []), name,
                          "inside one oneshot() block %s() first returned %r "
                          "and later %r" % (name, prev[1], got[1]))
                    else:
                        probes["repeat_in_block_checked"] = probes.get(
                            "repeat_in_block_checked", 0) + 1
                # same answer (the differential reference needs a fresh
                # handle, which cannot be built once the process has left
                # the table: then only the repeat clause above applies)
                if T not in k.procs:
                    probes["getter_in_block_after_process_left"] = \
                        probes.get("getter_in_block_after_process_left",
                                   0) + 1
                elif name not in ("cpu_percent", "create_time", "exe"):
                    cands = []
                    # (a) the shared / memoised source this getter is
                    # documented to be served from, pinned at its first read
                    # in the block; every other file as it is now
                    served = SERVED_BY.get(name, ())
                    pins_all = {}
                    for w, v in block["first"].items():
                        if w not in served:
                            continue
                        pr = k.proc_at(T, v)
                        if pr is not None:
                            pins_all[(T, w)] = pr
                    cands.append(self._eval(psutil, k, name, pins=pins_all))
                    ok = self._same(cands[0], got)
                    if not ok:
                        cands.append(self._eval(psutil, k, name))
                        ok = self._same(cands[-1], got)
                    if not ok:
                        # (b) one consistent moment: everything as it was at
                        # a version at which the block read something
                        for v in sorted({v_ for _, v_ in
                                         block.get("allreads", [])}):
                            pr = k.proc_at(T, v)
                            if pr is None:
                                continue
                            c = self._eval(psutil, k, name,
                                           procs_override={T: pr})
                            cands.append(c)
                            if self._same(c, got):
                                ok = True
                                break
                    if not ok and served:
                        # any single file pinned at any version at which the
                        # block read it (psutil's own zombie / existence
                        # probes read /proc/<pid>/stat outside the cache, so
                        # the cached record may stem from a later read)
                        tried = set()
                        for (w, v) in block.get("allreads", []):
                            if (w, v) in tried or w not in served:
                                continue
                            tried.add((w, v))
                            pr = k.proc_at(T, v)
                            if pr is None:
                                continue
                            c = self._eval(psutil, k, name,
                                           pins={(T, w): pr})
                            cands.append(c)
                            if self._same(c, got):
                                ok = True
                                break
                    if not ok:
                        V("C16.same_answer", ["nested"] if block["nested"]
                          else [], name, "inside oneshot(): %s() -> %r; "
                          "outside the block it would return %r (sources "
                          "pinned at first read) or %r (now)" % (
                              name, got[1], cands[0][1], cands[1][1]))
                    else:
                        probes["same_answer_checked"] = probes.get(
                            "same_answer_checked", 0) + 1
                        if len(cands) == 1 and not self._same(
                                self._eval(psutil, k, name), got):
                            probes["served_from_cache_while_changed"] = \
                                probes.get("served_from_cache_while_changed",
                                           0) + 1
            else:
                ref = self._eval(psutil, k, name)
                if name not in ("cpu_percent", "create_time", "exe") and \
                        not self._same(ref, got):
                    V("C16.fresh_after_exit", ["just_exited"] if just_exited
                      else ["plain"], name, "outside any block %s() -> %r, "
                      "current kernel state gives %r" % (name, got[1],
                                                         ref[1]))
                src = SINGLE_SOURCE.get(name)
                if just_exited and src in SHARED_SOURCES and \
                        got[0] == "value" and not opens_all.get(src):
                    V("C16.fresh_after_exit", ["no_reread", src], name,
                      "after the block exited %s() did not open "
                      "/proc/<pid>/%s again" % (name, src))
                if just_exited:
                    probes["call_right_after_exit"] = probes.get(
                        "call_right_after_exit", 0) + 1
            just_exited = False
            keys.add("C16s|get|%s|%s|%s" % (
                name, "block" if stack else "plain", got[0] if got[0] ==
                "value" else got[1]))
            if len(sample) < 5:
                sample.append("%s %s() -> %s" % (
                    "in-block" if stack else "plain", name,
                    str(got[1])[:60]))
        while stack:
            try:
                stack.pop().__exit__(None, None, None)
            except Exception:  # noqa: BLE001
                pass
        return {"violations": viol, "digest": k.digest.hexdigest(),
                "stats": dict(k.stats), "probes": probes,
                "keys": sorted(keys), "sim_time": 0.0, "sample": sample}

    def _check_as_dict(self, psutil, k, V, op, out, acc, zombie, block=None,
                       stack=(), probes=None):
        attrs = op["attrs"]
        valid = set(psutil._as_dict_attrnames)
        if attrs is not None and not isinstance(attrs, (list, tuple, set,
                                                        frozenset)):
            if not (out[0] == "exc" and isinstance(out[1], TypeError)):
                V("C16.as_dict", ["bad_type"], "as_dict",
                  "as_dict(attrs=%r) -> %r, expected TypeError" % (
                      attrs, out[1]))
            elif acc:
                V("C16.as_dict", ["bad_type", "access"], "as_dict",
                  "as_dict(attrs=%r) queried the OS before refusing" % (
                      attrs,))
            return
        if attrs is not None and set(attrs) - valid:
            if not (out[0] == "exc" and isinstance(out[1], ValueError)):
                V("C16.as_dict", ["bad_name"], "as_dict",
                  "as_dict(attrs=%r) -> %r, expected ValueError" % (
                      attrs, out[1]))
            elif acc:
                V("C16.as_dict", ["bad_name", "access"], "as_dict",
                  "as_dict(attrs=%r) queried the OS before refusing" % (
                      attrs,))
            return
        if out[0] == "exc":
            cls = exc_class(psutil, out[1])
            if cls != "NSP" or T in k.procs:
                V("C16.as_dict", ["exception", cls], "as_dict",
                  "as_dict(attrs=%r) raised %r" % (attrs, out[1]))
            return
        want = set(attrs) if attrs else valid
        d = out[1]
        if not isinstance(d, dict) or set(d) != want:
            V("C16.as_dict", ["keys"], "as_dict", "as_dict(attrs=%r) keys %r"
              % (attrs, sorted(set(d) ^ want) if isinstance(d, dict)
                 else type(d)))
            return
        if not zombie and not op.get("deny"):
            bad = [kk for kk, vv in d.items() if isinstance(vv, str) and
                   vv == "<ad>"]
            if bad:
                V("C16.as_dict", ["spurious_ad_value"], "as_dict",
                  "ad_value used for %r although nothing was denied and the "
                  "process is no zombie" % (bad,))
        # every value: what the getter itself answers (outside any block,
        # same refusals in force), ad_value exactly where it raises
        # AccessDenied / ZombieProcess
        if stack:
            return      # inside an outer block values may be older: C16s
                        # judges those through the getter clauses
        for name, val in d.items():
            if name in ("pid", "cpu_percent", "create_time", "exe",
                        "memory_percent", "connections"):
                continue
            ref = self._eval(psutil, k, name)
            if ref[0] == "exc" and ref[1] in ("AD", "ZP"):
                want = ("value", "<ad>")
            elif ref[0] == "exc":
                continue
            else:
                want = ref
            if not self._same(want, ("value", val)):
                V("C16.as_dict", ["value"] + (["deny"] if op.get("deny")
                                              else []) +
                  (["ad_value_expected"] if want[1] == "<ad>" else []), name,
                  "as_dict()[%r] = %r but %s() %s" % (
                      name, val, name, "raises %s (so ad_value is expected)"
                      % ref[1] if ref[0] == "exc" else "returns %r" %
                      (ref[1],)))
            elif probes is not None:
                probes["as_dict_value_checked"] = probes.get(
                    "as_dict_value_checked", 0) + 1
                if want[1] == "<ad>":
                    probes["as_dict_ad_value_checked"] = probes.get(
                        "as_dict_ad_value_checked", 0) + 1

    # ==================================================================
    # threaded programs
    def gen_threaded(self, rng, tier, prog, boot):
        world = self.target_world(rng)
        nthreads = rng.choice([2, 2, 3])
        threads = []
        if prog == "C16t" and rng.random() < 0.25:
            # targeted shape (small programs, so that a few pre-emptions
            # cover them well): a plain call of one thread races with another
            # thread entering / leaving blocks around a change of the process
            getters = list(SINGLE_SOURCE)
            g = rng.choice(getters)
            nthreads = 2
            a_ops = []
            if rng.random() < 0.4:
                a_ops.append({"op": "block", "gets": [g]})
            a_ops.append({"op": "ev", "ev": gen_change(rng)})
            a_ops.append(rng.choice([
                {"op": "block", "gets": [g]},
                {"op": "block", "gets": [g, rng.choice(getters)]},
                {"op": "as_dict", "attrs": [g]}]))
            b_ops = [{"op": "get", "m": g}] + (
                [{"op": "get", "m": g}] if rng.random() < 0.3 else [])
            # (thread 0 runs first: either order is one pre-emption apart)
            threads = [b_ops, a_ops] if rng.random() < 0.6 else [a_ops, b_ops]
            shape = {"plain": 0 if threads[0] is b_ops else 1}
        elif prog == "C16t":
            getters = list(SINGLE_SOURCE)
            for t in range(nthreads):
                ops = []
                role = "oneshot" if t == 0 else rng.choice(
                    ["plain", "plain", "oneshot"])
                for _ in range(rng.randrange(1, 5)):
                    r = rng.random()
                    if role == "oneshot" and r < 0.6:
                        ops.append({"op": "block", "gets": [
                            rng.choice(getters)
                            for _ in range(rng.randrange(0, 4))]})
                        if rng.random() < 0.2:
                            ops[-1]["raise"] = True
                    elif role == "oneshot" and r < 0.8:
                        ops.append({"op": "as_dict", "attrs": sorted(
                            rng.sample(getters, rng.randrange(1, 4)))})
                    elif r < 0.9:
                        ops.append({"op": "get", "m": rng.choice(getters)})
                    else:
                        ops.append({"op": "ev", "ev": gen_change(rng)})
                threads.append(ops)
        elif prog == "C04t" and rng.random() < 0.5:
            # targeted shape: one thread flags a recycled PID and iterates
            # again while the other thread iterates too
            world = None
            nthreads = 2
            x = rng.choice([2, 3, 4])
            threads = [[{"op": "iter", "consume": None},
                        {"op": "ev", "ev": {"ev": "reuse", "pid": x}},
                        {"op": "is_running_y", "i": 0, "pid": x},
                        {"op": "iter", "consume": None}],
                       [{"op": "iter", "consume": rng.choice([None, 1])},
                        {"op": "iter", "consume": None}]]
            if rng.random() < 0.5:
                threads[1].insert(1, {"op": "is_running_y", "i": 0,
                                      "pid": x})
            if rng.random() < 0.5:
                # two recycled PIDs: the second one is flagged by the other
                # thread while the first thread drains the flag set
                y = rng.choice([p_ for p_ in (2, 3, 4) if p_ != x])
                threads = [[{"op": "iter", "consume": None},
                            {"op": "ev", "ev": {"ev": "reuse", "pid": x}},
                            {"op": "ev", "ev": {"ev": "reuse", "pid": y}},
                            {"op": "is_running_y", "i": 0, "pid": x},
                            {"op": "iter", "consume": None}],
                           [{"op": "iter", "consume": None},
                            {"op": "is_running_y", "i": 0, "pid": y}]]
        elif prog == "C04t":
            world = None
            nthreads = 2
            for t in range(nthreads):
                ops = []
                for _ in range(rng.randrange(1, 4)):
                    r = rng.random()
                    if r < 0.6:
                        ops.append({"op": "iter", "consume": rng.choice(
                            [None, None, 1, 2])})
                        if ops[-1]["consume"] and rng.random() < 0.4:
                            # a partially consumed iterator the thread keeps
                            # (a `for` loop left by `break` whose generator
                            # is still referenced)
                            ops[-1]["keep_open"] = True
                    elif r < 0.75:
                        ops.append({"op": "is_running_y",
                                    "i": rng.randrange(8)})
                    elif r < 0.85:
                        ops.append({"op": "cache_clear"})
                    else:
                        ops.append({"op": "ev", "ev": {"ev": "reuse",
                                                       "pid": rng.choice(
                                                           [2, 3, 4])}})
                threads.append(ops)
        elif prog in ("C05t", "C14t"):
            # read-only queries from several threads on a table that does not
            # change: every answer must be the single-threaded one
            meths = ["children", "children_r", "parent", "parents"] \
                if prog == "C05t" else ["open_files", "open_files", "num_fds",
                                        "io_counters"]
            for t in range(nthreads):
                threads.append([{"op": "call", "m": rng.choice(meths)}
                                for _ in range(rng.randrange(1, 4))])
            files = world["files"]
            start = 300500
            for pid, ppid in ((T + 1, T), (T + 2, T), (T + 3, T + 1),
                              (T + 4, 1)):
                start += rng.randrange(1, 50)
                world["procs"].append(gen.gen_proc(
                    rng, pid, ppid, files, rich=(prog == "C14t"),
                    start=start))
        elif prog == "C02t" and rng.random() < 0.3:
            # targeted shape: one thread is inside is_running() while the
            # other makes the PID change hands and asks too
            nthreads = 2
            threads = [[{"op": "is_running"}],
                       [{"op": "ev", "ev": {"ev": "reuse", "pid": T}},
                        {"op": "is_running"}]]
            if rng.random() < 0.3:
                threads[0].append({"op": "is_running"})
            shape = {"plain": 0, "kind": "flag_race"}
        elif prog == "C02t":
            # several threads ask is_running() / == on ONE object; at most
            # one of them makes the process exit (or the PID change hands)
            killer = rng.randrange(nthreads) if rng.random() < 0.5 else None
            for t in range(nthreads):
                ops = []
                n = rng.randrange(1, 4)
                kill_at = rng.randrange(n + 1) if t == killer else None
                for i in range(n):
                    if i == kill_at:
                        ops.append({"op": "ev", "ev": {"ev": rng.choice(
                            ["vanish", "reuse", "zombify"]), "pid": T}})
                    ops.append({"op": rng.choice(["is_running", "is_running",
                                                  "eq"])})
                if kill_at == n:
                    ops.append({"op": "ev", "ev": {"ev": rng.choice(
                        ["vanish", "reuse"]), "pid": T}})
                threads.append(ops)
        elif prog == "C07t":
            world = None
            cpu_ids = boot["cpu_ids"]
            tnames = None
            if rng.random() < 0.35:
                # two worker threads that the application gave one name
                nthreads = 3
                tnames = {"1": "sampler", "2": "sampler"}
            pshare = rng.random() < 0.3
            for t in range(nthreads if not pshare else 0):
                ops = []
                for _ in range(rng.randrange(2, 5)):
                    if rng.random() < 0.6:
                        ops.append({"op": "ev", "ev": {
                            "ev": "cpu_add",
                            "rows": {str(c): [rng.randrange(0, 300)
                                              for _ in range(10)]
                                     for c in cpu_ids}}})
                    ops.append({"op": rng.choice(["cpu_percent",
                                                  "cpu_times_percent"]),
                                "interval": rng.choice([None, None, 0.0,
                                                        0.1]),
                                "percpu": rng.random() < 0.4})
                threads.append(ops)
            if pshare:
                # several threads poll one Process object (non-blocking
                # form) while it burns CPU and time passes
                tnames = None
                for t in range(nthreads):
                    ops = []
                    for _ in range(rng.randrange(2, 5)):
                        if rng.random() < 0.8:
                            ops.append({"op": "ev", "ev": {
                                "ev": "proc_tick", "pid": T,
                                "utime": rng.randrange(0, 120),
                                "stime": rng.randrange(0, 40)}})
                        if rng.random() < 0.8:
                            ops.append({"op": "ev", "ev": {
                                "ev": "advance",
                                "dt": rng.choice([0.5, 1.0, 2.0, 0.25])}})
                        ops.append({"op": "proc_cpu_percent"})
                    threads.append(ops)
        elif prog == "C10t":
            world = None
            nthreads = 2
            # half of the programs run 32-bit counters close to their limit
            # (real wraps while two threads call; no cache_clear() in those,
            # so that the order of the reads fixes the expected answers)
            wrapping = rng.random() < 0.5
            for t in range(nthreads):
                ops = []
                for _ in range(rng.randrange(2, 5)):
                    if rng.random() < 0.7:
                        ev = {"ev": "net_add", "name": "eth0",
                              "inc": [rng.randrange(0, 900)
                                      for _ in range(16)]}
                        if wrapping:
                            ev["mod"] = 2 ** 32
                        ops.append({"op": "ev", "ev": ev})
                    ops.append({"op": "net"})
                    if rng.random() < 0.25 and not wrapping:
                        ops.append({"op": "clear"})
                threads.append(ops)
        plan = {"prog": prog, "world": world, "threads": threads,
                "preempt": [], "ops": []}
        if prog in ("C16t", "C02t") and len(threads) == 2 and \
                "shape" in locals():
            plan["shape"] = shape
        if prog == "C04t":
            files = {}
            plan["world"] = {"procs": [gen.gen_proc(rng, pid, 1, files,
                                                    start=300100 + pid)
                                       for pid in (2, 3, 4)],
                             "files": files, "pid_lo": 2, "pid_hi": 6}
        if prog in ("C07t", "C10t"):
            plan["world"] = {"net": {"eth0": [1000] * 16}}
        if prog == "C10t" and wrapping:
            plan["wrapping"] = True
            plan["world"]["net"]["eth0"] = [
                2 ** 32 - rng.randrange(1, 1500) if rng.random() < 0.6
                else 1000 for _ in range(16)]
        if prog == "C07t" and tnames:
            plan["world"]["thread_names"] = tnames
        if prog == "C07t" and pshare:
            plan["pshare"] = True
            plan["world"]["procs"] = [{"pid": T, "ppid": 1, "comm": "burn"}]
        return plan

    # ------------------------------------------------------------------
    def exec_threaded(self, W, plan, record_sites=False):
        psutil = W.psutil
        prog = plan["prog"]
        k = self.make_kernel(W.boot, dict(plan["world"], max_acc=60000))
        if prog == "C16t":
            k.watch = (T,)
        k.keep_snaps = prog == "C04t"
        self.install(k)
        k.bump()
        if k.keep_snaps:
            k.snaps.append((k.version, k.snapshot()))
        nthreads = len(plan["threads"])
        viol, keys, probes, sample = [], set(), {}, []

        def V(clause, tags, api, msg):
            viol.append({"clause": clause, "tags": sorted(set(tags)),
                         "api": api, "msg": msg})

        shared = {}
        if prog in ("C16t", "C02t", "C05t", "C14t") or plan.get("pshare"):
            k.begin_op(0)
            shared["p"] = psutil.Process(T)
            k.end_op()
        if prog == "C04t":
            # warm the cache sequentially: objects of PIDs that stay listed,
            # are never flagged and see no cache_clear() must survive
            # whatever the two threads do afterwards
            k.begin_op(0)
            shared["warm"] = {p_.pid: (p_, k.procs[p_.pid].inc)
                              for p_ in psutil.process_iter()
                              if p_.pid in k.procs}
            k.end_op()
        records = [[] for _ in range(nthreads)]
        scratch = W.scratch + "/psutil/"
        sched = Sched(k, nthreads, plan.get("preempt"), trace_prefix=scratch)
        sched.record_sites = record_sites
        blocks_active = []     # (thread, start_version)

        def body(t):
            c = k.ctxs[t]
            for j, op in enumerate(plan["threads"][t]):
                kind = op["op"]
                if kind == "ev":
                    k.apply_event(op["ev"])
                    shared.setdefault("ev_versions", []).append(
                        (k.version, op["ev"]["ev"]))
                    continue
                k.begin_op(1000 * (t + 1) + j, thread=t)
                self._run_thread_op(psutil, k, sched, prog, shared, t, j, op,
                                    records, blocks_active)
                k.end_op(thread=t)

        sched.run([body] * nthreads)
        fp = sched.fingerprint
        res = {"violations": viol, "digest": k.digest.hexdigest(),
               "stats": dict(k.stats), "probes": probes,
               "sim_time": k.mono - 51000.0 if prog == "C16t" else 0.0,
               "voluntary": sched.voluntary, "forced": sched.forced,
               "ycount": list(sched.ycount)}
        if record_sites:
            res["sites"] = sched.sites
        for name, n in sched.probes.items():
            probes[name] = n
        if sched.deadlock:
            V(prog[:3] + ".deadlock", [], prog, "all simulated threads are "
              "blocked: %r" % (sched.state,))
        for t, e in enumerate(sched.errors):
            if e is not None:
                if is_harness_exc(e):
                    raise e
                V(prog[:3] + ".thread_crash", [type(e).__name__], prog,
                  "thread %d died with %r" % (t, e))
        self._shared = shared
        for kk_, vv_ in (shared.get("probes") or {}).items():
            probes[kk_] = probes.get(kk_, 0) + vv_
        checker = getattr(self, "check_" + prog)
        checker(W, psutil, k, plan, records, V, probes, keys)
        crit = [f for f in fp if any(s in f[2] for s in (
            "wrapper", "cache_activate", "cache_deactivate", "oneshot",
            "process_iter", "run", "wrap_numbers", "cpu_percent",
            "cpu_times_percent", "calculate", "acc:"))]
        if sched.voluntary and crit:
            keys.add("%s|%s" % (prog, "|".join(
                "%d>%d@%s" % f for f in fp)[:400]))
        res["keys"] = sorted(keys)
        res["sample"] = ["%s: %d threads, %d voluntary switches: %s" % (
            prog, nthreads, sched.voluntary,
            ["%d>%d@%s" % f for f in fp[:4]])]
        return res

    def _run_thread_op(self, psutil, k, sched, prog, shared, t, j, op,
                       records, blocks_active):
        kind = op["op"]
        rec = {"op": op, "t": t, "j": j, "v0": k.version,
               "nacc0": sched.total_yields,
               "active0": [b[1] for b in blocks_active]}
        records[t].append(rec)
        sr0 = len(k.statreads)
        tr0 = len(k.tabreads)
        try:
            if prog == "C16t":
                p = shared["p"]
                if kind == "block":
                    me = (t, k.version)
                    vals = []
                    blocks_active.append(me)
                    try:
                        with p.oneshot():
                            for g in op["gets"]:
                                v0 = k.version
                                # a block holds the object's lock: no other
                                # thread's block can be open at the same
                                # time, only this thread's own one counts
                                a0 = [b[1] for b in blocks_active
                                      if b[0] == t]
                                try:
                                    vals.append((g, v0, a0, ("value",
                                                             call_getter(p, g)),
                                                 k.version))
                                except BaseException as e:  # noqa: BLE001
                                    if is_harness_exc(e) or \
                                            type(e).__name__ == "_Abort":
                                        raise
                                    vals.append((g, v0, a0, ("exc", e),
                                                 k.version))
                            if op.get("raise"):
                                # the application's own code fails inside
                                # the block
                                raise _BlockBoom()
                    except _BlockBoom:
                        probes_local = shared.setdefault("probes", {})
                        probes_local["block_left_by_exception"] = \
                            probes_local.get("block_left_by_exception", 0) + 1
                    finally:
                        blocks_active.remove(me)
                    rec["out"] = ("value", vals)
                elif kind == "as_dict":
                    me = (t, k.version)
                    blocks_active.append(me)
                    try:
                        rec["out"] = ("value", p.as_dict(attrs=op["attrs"],
                                                         ad_value="<ad>"))
                    finally:
                        blocks_active.remove(me)
                else:
                    rec["out"] = ("value", call_getter(p, op["m"]))
            elif prog in ("C05t", "C14t"):
                rec["out"] = ("value", self._ro_call(shared["p"], op["m"]))
            elif prog == "C02t":
                p = shared["p"]
                if kind == "is_running":
                    rec["out"] = ("value", p.is_running())
                else:
                    q = psutil.Process(T)
                    rec["inc2"] = k.procs[T].inc if T in k.procs else None
                    rec["out"] = ("value", (p == q, p != q,
                                            hash(p) == hash(q)))
            elif prog == "C04t":
                if kind == "iter":
                    g = psutil.process_iter()
                    got = []
                    if op["consume"] is None:
                        got = list(g)
                    else:
                        for _ in range(op["consume"]):
                            try:
                                got.append(next(g))
                            except StopIteration:
                                break
                        if op.get("keep_open"):
                            shared.setdefault("gens", []).append(g)
                        else:
                            g.close()
                    shared.setdefault("yielded", {})[t] = got
                    rec["out"] = ("value", got)
                elif kind == "is_running_y":
                    ys = shared.get("yielded", {}).get(t) or []
                    if "pid" in op:
                        ys = [y for y in ys if y.pid == op["pid"]] or ys
                    if ys:
                        tgt = ys[op["i"] % len(ys)]
                        rec["target_pid"] = tgt.pid
                        rec["target"] = tgt
                        rec["out"] = ("value", tgt.is_running())
                    else:
                        rec["out"] = ("value", None)
                else:
                    psutil.process_iter.cache_clear()
                    rec["out"] = ("value", None)
            elif prog == "C07t" and kind == "proc_cpu_percent":
                pr0 = len(k.procstat_reads)
                a0 = len(k.acclog)
                try:
                    rec["out"] = ("value", shared["p"].cpu_percent(None))
                finally:
                    rec["own_pt"] = [r for r in k.procstat_reads[pr0:]
                                     if r[0] == t and r[2] == T]
                    rec["own_st"] = [a[9] for a in k.acclog[a0:]
                                     if a[0] == t and a[3] == "clock"]
            elif prog == "C07t":
                fn = getattr(psutil, kind)
                rec["out"] = ("value", fn(interval=op["interval"],
                                          percpu=op["percpu"]))
            elif prog == "C10t":
                if kind == "clear":
                    psutil.net_io_counters.cache_clear()
                    rec["out"] = ("value", {"eth0": None})
                    rec["is_clear"] = True
                else:
                    rec["out"] = ("value", psutil.net_io_counters(
                        pernic=True, nowrap=True))
        except BaseException as e:  # noqa: BLE001
            if is_harness_exc(e) or type(e).__name__ == "_Abort":
                raise
            rec["out"] = ("exc", e)
        rec["v1"] = k.version
        rec["statreads"] = k.statreads[sr0:]
        rec["tabreads"] = k.tabreads[tr0:]
        rec["nacc_end"] = sched.total_yields
        rec["acc_end"] = k.nacc

    # ---- oracles of the threaded programs -----------------------------
    def check_C16t(self, W, psutil, k, plan, records, V, probes, keys):
        alive = T in k.procs and not k.procs[T].zombie
        versions = [v for v, _ in k.proc_hist]

        def valid(name, got, vlo, vhi):
            for v in versions:
                if v < vlo and v != max([x for x in versions if x <= vlo],
                                        default=vlo):
                    continue
                if v > vhi:
                    break
                pr = k.proc_at(T, v)
                ref = self._eval(psutil, k, name, procs_override={T: pr})
                if self._same(ref, got):
                    return True, ref
            return False, None

        def judge(name, out, v0, active0, v1, t, ctx):
            if out[0] == "exc":
                V("C16.no_spurious", [exc_class(psutil, out[1]), ctx], name,
                  "thread %d: %s() raised %r (process alive, no fault)" % (
                      t, name, out[1]))
                return
            vlo = min([v0] + list(active0))
            ok, _ = valid(name, out, vlo, v1)
            if not ok:
                cur = self._eval(psutil, k, name)
                extra = []
                older = [v for v in versions if v < vlo]
                if older and valid(name, out, min(older), vlo - 1)[0]:
                    extra.append("older_version_matches")
                # a call of another thread that began before this window and
                # was still running inside it (it may store into the cache
                # late: memoize_when_activated's KeyError -> store window)
                for t2, recs2 in enumerate(records):
                    for r2 in recs2:
                        if r2.get("v0", 10 ** 9) < vlo <= r2.get(
                                "v1", -1) and r2["op"]["op"] == "get":
                            extra.append("plain_call_spans_block_start")
                            # the late store needs the call to have looked
                            # the cache up during one block and to store
                            # during a later one: two block operations of
                            # other threads overlap it
                            nb = sum(1 for t3, recs3 in enumerate(records)
                                     if t3 != t2 for r3 in recs3
                                     if r3["op"]["op"] in ("block", "as_dict")
                                     and r3["nacc0"] <= r2.get(
                                         "nacc_end", 10 ** 12) and
                                     r3.get("nacc_end", 10 ** 12) >=
                                     r2["nacc0"])
                            if nb >= 2:
                                extra.append("spanning_call_overlaps_two_"
                                             "blocks")
                V("C16.valid_value", [ctx] + extra, name,
                  "thread %d: %s() -> %r is "
                  "not the answer for any kernel version in [%d, %d] "
                  "(current answer %r)" % (t, name, out[1], vlo, v1, cur[1]))
            else:
                probes["valid_value_checked"] = probes.get(
                    "valid_value_checked", 0) + 1

        for t, recs in enumerate(records):
            for rec in recs:
                op = rec["op"]
                out = rec.get("out")
                if out is None:
                    continue
                kind = op["op"]
                if kind == "get":
                    judge(op["m"], out, rec["v0"], rec["active0"], rec["v1"],
                          t, "plain")
                elif kind == "block":
                    if out[0] == "exc":
                        V("C16.no_spurious", [exc_class(psutil, out[1]),
                                              "block"], "oneshot",
                          "thread %d: oneshot() block raised %r" % (
                              t, out[1]))
                        continue
                    for (g, v0, a0, o, v1) in out[1]:
                        judge(g, o, min([v0, rec["v0"]]), a0, v1, t,
                              "in_block")
                elif kind == "as_dict":
                    if out[0] == "exc":
                        V("C16.no_spurious", [exc_class(psutil, out[1]),
                                              "as_dict"], "as_dict",
                          "thread %d: as_dict() raised %r" % (t, out[1]))
                        continue
                    d = out[1]
                    if set(d) != set(op["attrs"]):
                        V("C16.as_dict", ["keys", "threaded"], "as_dict",
                          "keys %r" % sorted(d))
                        continue
                    for name, val in d.items():
                        # as_dict() is a block of its own (see above)
                        judge(name, ("value", val), rec["v0"],
                              [], rec["v1"], t, "as_dict")

    def check_C04t(self, W, psutil, k, plan, records, V, probes, keys):
        for t, recs in enumerate(records):
            for rec in recs:
                out = rec.get("out")
                op = rec["op"]
                if out is None:
                    continue
                if out[0] == "exc":
                    V("C04.exception", [exc_class(psutil, out[1]),
                                        "two_threads"], op["op"],
                      "thread %d: %s raised %r" % (t, op["op"], out[1]))
                    continue
                if op["op"] == "iter":
                    pl = [p.pid for p in out[1]]
                    if pl != sorted(pl):
                        V("C04.iter_order", ["two_threads"], "process_iter",
                          "thread %d: order %r" % (t, pl))
                    if len(set(pl)) != len(pl):
                        V("C04.iter_unique", ["two_threads"], "process_iter",
                          "thread %d: duplicates in %r" % (t, pl))
                    ever = set()
                    for v, s in k.snaps:
                        ever |= set(s)
                    if [x for x in pl if x not in ever]:
                        V("C04.iter_listed", ["two_threads"], "process_iter",
                          "thread %d yielded unknown pids %r" % (t, pl))
        # identity through the threads
        cleared = any(op["op"] == "cache_clear" for th in plan["threads"]
                      for op in th)
        touched = {op["ev"].get("pid") for th in plan["threads"]
                   for op in th if op["op"] == "ev"}
        if not cleared:
            for t, recs in enumerate(records):
                for rec in recs:
                    if rec["op"]["op"] != "iter" or rec.get("out", (0,))[0] \
                            != "value":
                        continue
                    for o in rec["out"][1]:
                        w = self._shared.get("warm", {}).get(o.pid)
                        if w is None or o.pid in touched:
                            continue
                        cur = k.procs.get(o.pid)
                        if cur is None or cur.inc != w[1]:
                            continue
                        if o is not w[0]:
                            V("C04.identity", ["two_threads",
                                               "object_replaced"],
                              "process_iter", "thread %d: pid %d stayed "
                              "listed (same process, never flagged, no "
                              "cache_clear) but a different object than the "
                              "cached one was yielded" % (t, o.pid))
                            break
                    else:
                        probes["identity_through_threads_checked"] = \
                            probes.get("identity_through_threads_checked",
                                       0) + 1
        # eventual coherence: two further sequential iterations agree
        k.begin_op(9000)
        try:
            list(psutil.process_iter())
            a = {p.pid: p for p in psutil.process_iter()}
            b = {p.pid: p for p in psutil.process_iter()}
            k.end_op()
            for pid in a:
                if pid in b and a[pid] is not b[pid]:
                    V("C04.identity", ["after_two_threads"], "process_iter",
                      "pid %d: different objects in two sequential "
                      "iterations after the threads finished" % pid)
            probes["eventual_coherence_checked"] = 1
            # objects that is_running() declares recycled now must be
            # replaced: the next iteration may skip the PID (KF-C04-1), the
            # one after must not yield the old object any more
            # "found recycled by is_running()": some is_running() call on
            # the object returned False after an identity read (open + read
            # of /proc/<pid>/stat) that saw another incarnation than the one
            # the object was made for from beginning to end.  A call that
            # only learnt "gone" (ESRCH on a file opened before the exit)
            # does not count: the statement promises nothing for it
            allrecs = [r_ for recs in records for r_ in recs]
            warm = self._shared.get("warm", {})

            def found_recycled(o, accs):
                w = warm.get(o.pid)
                if w is None or w[0] is not o:
                    return False
                seen = [a_[6] for a_ in accs if a_[3] in ("open", "read")
                        and a_[4] == "/proc/%d/stat" % o.pid]
                return len(seen) >= 2 and all(
                    x is not None and x != w[1] for x in seen)

            stale = []
            for o in list(b.values()):
                acc0 = len(k.acclog)
                r = o.is_running()
                cur = k.procs.get(o.pid)
                if r is not False or cur is None:
                    continue
                if found_recycled(o, k.acclog[acc0:]):
                    stale.append(o)
                    continue
                for r_ in allrecs:
                    if r_["op"]["op"] == "is_running_y" and \
                            r_.get("target") is o and \
                            r_.get("out") == ("value", False) and \
                            found_recycled(o, [
                                a_ for a_ in k.acclog if a_[0] == r_["t"]
                                and a_[1] == 1000 * (r_["t"] + 1) + r_["j"]]):
                        stale.append(o)
                        break
                else:
                    probes["gone_not_recycled_not_judged"] = probes.get(
                        "gone_not_recycled_not_judged", 0) + 1
            if stale:
                list(psutil.process_iter())
                c = list(psutil.process_iter())
                iters = [r_ for r_ in allrecs if r_["op"]["op"] == "iter"
                         and "nacc_end" in r_]
                for o in stale:
                    flags = [r_ for r_ in allrecs
                             if r_["op"]["op"] == "is_running_y" and
                             r_.get("target_pid") == o.pid and
                             r_.get("out") == ("value", False)]
                    t_flag = min([r_["nacc0"] for r_ in flags] or [0])
                    def end_(r__):
                        # an iterator the thread kept open is in flight
                        # until the very end (the two passes of this check
                        # included)
                        return 10 ** 12 if r__["op"].get("keep_open") \
                            else r__["nacc_end"]

                    overl = any(
                        a_ is not b_ and (a_["t"] != b_["t"] or
                                          a_["op"].get("keep_open") or
                                          b_["op"].get("keep_open")) and
                        end_(a_) > t_flag and end_(b_) > t_flag
                        and a_["nacc0"] < end_(b_) and
                        b_["nacc0"] < end_(a_)
                        for a_ in iters for b_ in iters) or any(
                        a_["op"].get("keep_open") for a_ in iters)
                    cause = ["overlapping_iterations_after_flag"] if overl \
                        else ["no_overlapping_iterations"]
                    if any(x is o for x in c):
                        V("C04.recycled_refreshed", ["after_two_threads",
                                                     "old_object"] + cause,
                          "process_iter", "pid %d: is_running() is False "
                          "(PID recycled) but the old object is still "
                          "yielded two iterations later (flag at access %d; "
                          "iterations [thread, first..last access]: %r)" % (
                              o.pid, t_flag, [(r_["t"], r_["nacc0"],
                                               r_["nacc_end"])
                                              for r_ in iters]))
                probes["stale_objects_rechecked"] = len(stale)
        except BaseException as e:  # noqa: BLE001
            if is_harness_exc(e):
                raise
            V("C04.exception", [exc_class(psutil, e), "after_two_threads"],
              "process_iter", "sequential iteration after the threads "
              "raised %r" % (e,))

    @staticmethod
    def _ro_call(p, m):
        if m == "children":
            return [c.pid for c in p.children()]
        if m == "children_r":
            return sorted(c.pid for c in p.children(recursive=True))
        if m == "parent":
            q = p.parent()
            return q.pid if q is not None else None
        if m == "parents":
            return [q.pid for q in p.parents()]
        if m == "open_files":
            return sorted(tuple(x) for x in p.open_files())
        if m == "io_counters":
            return tuple(p.io_counters())
        return getattr(p, m)()

    def _check_readonly(self, W, psutil, k, plan, records, V, probes, prop):
        ref = {}
        k.begin_op(9000)
        for m in sorted({r["op"]["m"] for recs in records for r in recs}):
            try:
                ref[m] = ("value", self._ro_call(self._shared["p"], m))
            except BaseException as e:  # noqa: BLE001
                if is_harness_exc(e):
                    raise
                ref[m] = ("exc", exc_class(psutil, e))
        k.end_op()
        for t, recs in enumerate(records):
            for rec in recs:
                out = rec.get("out")
                if out is None:
                    continue
                m = rec["op"]["m"]
                got = out if out[0] == "value" else (
                    "exc", exc_class(psutil, out[1]))
                if got != ref[m]:
                    V(prop + ".concurrent_readers", ["threads"] + (
                        [got[1]] if got[0] == "exc" else []), m,
                      "thread %d: %s() -> %r while other threads were "
                      "querying too; alone, on the same unchanged table, it "
                      "answers %r" % (t, m, got[1] if got[0] == "exc"
                                      else out[1], ref[m][1]))
                else:
                    probes["concurrent_reader_checked"] = probes.get(
                        "concurrent_reader_checked", 0) + 1

    def check_C05t(self, W, psutil, k, plan, records, V, probes, keys):
        self._check_readonly(W, psutil, k, plan, records, V, probes, "C05")

    def check_C14t(self, W, psutil, k, plan, records, V, probes, keys):
        self._check_readonly(W, psutil, k, plan, records, V, probes, "C14")

    def check_C02t(self, W, psutil, k, plan, records, V, probes, keys):
        evs = self._shared.get("ev_versions") or []
        # the version from which the object's own process is out of the
        # table (a zombie is still in it)
        gone_v = min([v for v, e in evs if e in ("vanish", "reuse")] or
                     [None], key=lambda x: (x is None, x))
        allrecs = sorted((r for recs in records for r in recs
                          if "out" in r), key=lambda r: r["nacc0"])
        first_false_end = None
        for rec in allrecs:
            t, out, kind = rec["t"], rec["out"], rec["op"]["op"]
            before = gone_v is None or rec["v1"] < gone_v
            after = gone_v is not None and rec["v0"] >= gone_v
            if out[0] == "exc":
                cls = exc_class(psutil, out[1])
                if kind == "is_running" or before or cls not in ("NSP",):
                    V("C02.running" if kind == "is_running" else "C02.eq",
                      ["exception", "threads", cls], kind,
                      "thread %d: %s raised %r" % (t, kind, out[1]))
                continue
            if kind == "is_running":
                val = out[1]
                if before and val is not True:
                    V("C02.running_while_listed", ["threads"], "is_running",
                      "thread %d: is_running() -> %r on an object shared by "
                      "%d threads while its process stayed in the table for "
                      "the whole call" % (t, val, len(records)))
                if after and val is not False:
                    V("C02.running_after_gone", ["threads"], "is_running",
                      "thread %d: is_running() -> %r in a call that began "
                      "after the process had left the table" % (t, val))
                if val is True and first_false_end is not None and \
                        rec["nacc0"] > first_false_end:
                    V("C02.sticky", ["threads"], "is_running",
                      "thread %d: is_running() True in a call that began "
                      "after another call had returned False" % t)
                if val is False and (first_false_end is None or
                                     rec["nacc_end"] < first_false_end):
                    first_false_end = rec["nacc_end"]
                probes["is_running_from_threads"] = probes.get(
                    "is_running_from_threads", 0) + 1
            else:
                eq, ne, hh = out[1]
                if before and (eq is not True or ne is not False or not hh):
                    V("C02.eq", ["threads", "same_process"], "eq",
                      "thread %d: shared object vs a fresh Process of the "
                      "same live process: == %r, != %r, equal hashes %r" % (
                          t, eq, ne, hh))
                if after and rec.get("inc2") is not None and eq:
                    V("C02.eq", ["threads", "different_process"], "eq",
                      "thread %d: shared object equals a Process built for "
                      "the new owner of the PID" % t)
        # afterwards, sequentially
        k.begin_op(9000)
        try:
            r = self._shared["p"].is_running()
        except BaseException as e:  # noqa: BLE001
            if is_harness_exc(e):
                raise
            r = e
        k.end_op()
        cur = k.procs.get(T)
        listed = gone_v is None
        if r is not listed:
            V("C02.running_while_listed" if listed else
              "C02.running_after_gone", ["threads", "afterwards"],
              "is_running", "after the threads finished is_running() -> %r; "
              "the object's process is %s" % (
                  r, "still in the table" if listed else "gone"))

    def check_C07t_shared(self, W, psutil, k, plan, records, V, probes,
                          keys):
        """Several threads, one Process object: every answer is the usage
        between this call's own sample and the sample some other call on the
        object took earlier (0.0 while no call has finished)."""
        from ..kernel import CLK_TCK
        allrecs = [r for recs in records for r in recs
                   if r["op"]["op"] == "proc_cpu_percent" and "out" in r]
        for rec in allrecs:
            out = rec["out"]
            if out[0] == "exc":
                V("C07.exception", [type(out[1]).__name__, "threads",
                                    "shared_process"], "proc_cpu_percent",
                  "thread %d: Process.cpu_percent() raised %r" % (
                      rec["t"], out[1]))
                continue
            if not rec.get("own_pt") or not rec.get("own_st"):
                continue
            v = out[1]
            st2, pt2 = rec["own_st"][-1], rec["own_pt"][-1][3]
            cands = []
            first_ok = not any(o["nacc_end"] <= rec["nacc0"]
                               for o in allrecs if o is not rec)
            if first_ok:
                cands.append(0.0)
            for o in allrecs:
                if o is rec or not o.get("own_pt") or not o.get("own_st") \
                        or o["nacc0"] >= rec["nacc_end"]:
                    continue
                st1, pt1 = o["own_st"][-1], o["own_pt"][-1][3]
                dt = st2 - st1
                if dt < 0:
                    continue
                cands.append(100.0 * (pt2 - pt1) / CLK_TCK / dt if dt > 0
                             else 0.0)
            torn = []
            others = [o for o in allrecs if o is not rec and o.get("own_pt")
                      and o.get("own_st") and o["nacc0"] < rec["nacc_end"]]
            for o1 in others:
                for o2 in others:
                    dt = st2 - o1["own_st"][-1]
                    if o1 is not o2 and dt > 0:
                        torn.append(100.0 * (pt2 - o2["own_pt"][-1][3]) /
                                    CLK_TCK / dt)
            if not isinstance(v, float) or v < 0 or not any(
                    abs(v - c) <= 0.051 for c in cands):
                V("C07.process_percent", ["threads", "shared_process"] + (
                    ["timestamp_and_cpu_times_of_different_calls"]
                    if isinstance(v, float) and any(
                        abs(v - c) <= 0.051 for c in torn) else []),
                  "proc_cpu_percent", "thread %d: Process.cpu_percent() -> "
                  "%r; own sample (t=%r, %d ticks) against the samples of "
                  "the other calls gives %r" % (
                      rec["t"], v, st2, pt2,
                      sorted(set(round(c, 1) for c in cands))))
            else:
                probes["shared_process_checked"] = probes.get(
                    "shared_process_checked", 0) + 1

    def check_C07t(self, W, psutil, k, plan, records, V, probes, keys):
        if plan.get("pshare"):
            return self.check_C07t_shared(W, psutil, k, plan, records, V,
                                          probes, keys)
        boot = W.boot
        nf = boot["cpu_fields"]
        cpu_ids = list(boot["cpu_ids"])
        imp = {int(c): list(r) for c, r in boot["cpu_ticks"].items()}

        off = boot.get("cpu_offline") or [0] * 10

        def total_row(tab):
            return [off[i] + sum(tab[c][i] for c in cpu_ids)
                    for i in range(10)]

        last = {}
        # order of completion == order of nacc_end
        allrecs = sorted((r for recs in records for r in recs
                          if "out" in r), key=lambda r: r["nacc_end"])
        for rec in allrecs:
            op = rec["op"]
            t = rec["t"]
            out = rec["out"]
            if out[0] == "exc":
                V("C07.exception", [type(out[1]).__name__, "threads"],
                  op["op"], "thread %d: %s raised %r" % (t, op["op"], out[1]))
                continue
            key = (op["op"], op["percpu"], t)
            reads = [r for r in rec["statreads"] if r[0] == t]
            if not reads:
                continue
            blocking = op["interval"] is not None and op["interval"] > 0
            t2 = reads[-1][2]
            if blocking:
                t1 = reads[0][2]
            else:
                t1 = last.get(key)
                if t1 is None:
                    t1 = imp if t == 0 and not boot.get("import_deny") \
                        else reads[0][2]
            last[key] = t2
            if boot.get("import_deny") and len(reads) >= 3 and (
                    blocking or t1 is reads[0][2]):
                # psutil learns the field layout of /proc/stat with one more
                # read at its very first cpu_times() call (it could not at
                # import): the sample proper is the read after it
                ok_alt = False
                for alt in reads[1:-1]:
                    rows_ = [(alt[2][c], t2[c]) for c in cpu_ids] \
                        if op["percpu"] else [(total_row(alt[2]),
                                               total_row(t2))]
                    vals_ = out[1] if op["percpu"] else [out[1]]
                    good = True
                    for (a, b), v in zip(rows_, vals_):
                        d = [max(0, b[i] - a[i]) for i in range(nf)]
                        tot = sum(d) - (d[8] if nf >= 9 else 0) - (
                            d[9] if nf >= 10 else 0)
                        busy = tot - d[3] - d[4]
                        if op["op"] == "cpu_percent":
                            exp = 100.0 * busy / tot if tot > 0 else 0.0
                            good = good and abs(v - exp) <= 0.051
                        else:
                            for i in range(nf):
                                exp = min(100.0, 100.0 * d[i] / tot) \
                                    if tot > 0 else 0.0
                                good = good and abs(v[i] - exp) <= 0.051 + \
                                    (100.0 if tot < 100 else 0)
                    ok_alt = ok_alt or good
                if ok_alt:
                    probes["layout_probe_read_skipped"] = probes.get(
                        "layout_probe_read_skipped", 0) + 1
                    continue
            rows = [(t1[c], t2[c]) for c in cpu_ids] if op["percpu"] else \
                [(total_row(t1), total_row(t2))]
            vals = out[1] if op["percpu"] else [out[1]]
            for (a, b), v in zip(rows, vals):
                d = [max(0, b[i] - a[i]) for i in range(nf)]
                tot = sum(d) - (d[8] if nf >= 9 else 0) - (d[9] if nf >= 10
                                                           else 0)
                busy = tot - d[3] - d[4]
                if op["op"] == "cpu_percent":
                    exp = 100.0 * busy / tot if tot > 0 else 0.0
                    if abs(v - exp) > 0.051:
                        V("C07.per_thread", ["threads"], op["op"],
                          "thread %d: cpu_percent -> %r but its own samples "
                          "give %.2f (measured against another thread's "
                          "sample?)" % (t, v, exp))
                else:
                    for i in range(nf):
                        exp = min(100.0, 100.0 * d[i] / tot) if tot > 0 \
                            else 0.0
                        if abs(v[i] - exp) > 0.051:
                            V("C07.per_thread", ["threads"], op["op"],
                              "thread %d: cpu_times_percent field %d -> %r, "
                              "own samples give %.2f" % (t, i, v[i], exp))
                            break
            probes["per_thread_checked"] = probes.get("per_thread_checked",
                                                      0) + 1

    def check_C10t(self, W, psutil, k, plan, records, V, probes, keys):
        # linearisation point = entry into the lock; approximate by the order
        # in which the calls *finished* is wrong when reads are inverted, so
        # use monotonicity + bounded offset: with no raw decrease ever, every
        # result must equal some raw snapshot (offset 0).
        allrecs = [r for recs in records for r in recs if "out" in r]
        raws = []
        for v, _ in [(0, 0)]:
            pass
        for rec in allrecs:
            out = rec["out"]
            if out[0] == "exc":
                V("C10.exception", [type(out[1]).__name__, "threads"],
                  "net_io_counters", "thread %d raised %r" % (rec["t"],
                                                              out[1]))
                continue
            got = out[1]
            if rec.get("is_clear"):
                continue
            if set(got) != {"eth0"}:
                V("C10.value", ["threads", "shape"], "net_io_counters",
                  "%r" % (got,))
                continue
            rec["vals"] = tuple(got["eth0"])
        if plan.get("wrapping"):
            # reads happen under the lock: their order is the order in which
            # the calls entered it, and the reference model run over the raw
            # tables in that order gives each call's answer
            model = WrapModel()
            calls = []
            for rec in allrecs:
                if "vals" not in rec:
                    continue
                rd = [r for r in rec["tabreads"] if r[0] == rec["t"] and
                      r[2] == "/proc/net/dev"]
                if len(rd) != 1:
                    V("C10.concurrent", ["threads", "reads"],
                      "net_io_counters", "thread %d: %d reads of "
                      "/proc/net/dev in one call" % (rec["t"], len(rd)))
                    continue
                calls.append((rd[0][4], rec, rd[0][5]))
            calls.sort(key=lambda c: c[0])
            for _, rec, table in calls:
                want, tags = model.call({"eth0": net_raw(table["eth0"])})
                if rec["vals"] != want["eth0"]:
                    V("C10.concurrent", ["threads", "wrapping"] + sorted(
                        tags & {"wrap", "repeated_wrap"}),
                      "net_io_counters", "thread %d got %r; the calls "
                      "entered the lock in the order of their reads, which "
                      "gives %r (raw %r)" % (rec["t"], rec["vals"],
                                             want["eth0"],
                                             net_raw(table["eth0"])))
                else:
                    probes["concurrent_wrapping_checked"] = probes.get(
                        "concurrent_wrapping_checked", 0) + 1
                    if "wrap" in tags:
                        probes["wrap_seen_by_thread"] = probes.get(
                            "wrap_seen_by_thread", 0) + 1
            return
        # raw never decreases in this program => no wrap may be inferred:
        # every returned tuple must be one of the raw snapshots that existed
        snaps = [net_raw(h["eth0"]) for h in k.net_hist if "eth0" in h]
        for rec in allrecs:
            if "vals" not in rec:
                continue
            if rec["vals"] not in snaps:
                inverted = False
                V("C10.concurrent", ["threads", "bogus_offset"],
                  "net_io_counters", "thread %d got %r which is no raw "
                  "snapshot although no counter ever decreased (a wrap was "
                  "inferred from interleaved reads)" % (rec["t"],
                                                        rec["vals"]))
            else:
                probes["concurrent_checked"] = probes.get(
                    "concurrent_checked", 0) + 1

    # ==================================================================
    def execute(self, W, plan):
        if plan["prog"] == "C16s":
            return self.exec_C16s(W, plan)
        return self.exec_threaded(W, plan)

    def prog_for(self, prop, rng):
        if prop == "C16":
            return rng.choice(["C16s", "C16s", "C16t", "C16t", "C16t"])
        return prop + "t"

    def run_unit(self, W, unit_seed, tier):
        prop = W.prop
        rng = self.rng("th", prop, unit_seed)
        prog = self.prog_for(prop, rng)
        u = {"evals": 0, "keys": set(), "stats": {}, "violations": [],
             "harness_errors": [], "timeouts": 0, "digest_checks": 0}
        if prog == "C16s":
            plan = self.gen_C16s(rng, tier)
            r = W.execute_forked(plan)
            u["evals"] += 1
            self._absorb(u, plan, r)
            return u
        base = self.gen_threaded(rng, tier, prog, W.boot)
        # dry run (no pre-emption): learn each thread's yield sites
        dry = W.fork(lambda: self.exec_threaded(W, base, record_sites=True))
        u["evals"] += 1
        if not self._absorb(u, base, dry):
            return u
        sites = dry.get("sites") or []
        nthreads = len(base["threads"])
        budget = 6 if tier == "quick" else 20
        maxpre = 4 if tier == "quick" else 8
        crit_words = ("wrapper", "cache_activate", "cache_deactivate",
                      "oneshot", "as_dict", "process_iter", ":run:",
                      "wrap_numbers", "cpu_percent", "cpu_times_percent",
                      "_remove_dead", "acc:read", "acc:open",
                      "acc:listdir", "is_running", "_init", "_get_ident",
                      "__eq__", "ppid_map", "open_files", "children",
                      "readinto")
        shape = base.get("shape")
        if shape and len(sites) == 2 and all(sites):
            budget = 30 if tier == "quick" else 90
        for j in range(budget):
            pre = []
            npre = rng.randrange(1, maxpre + 1)
            if shape and len(sites) == 2 and all(sites):
                # the plain thread is stopped somewhere inside the memoising
                # wrapper, the block thread somewhere later, and back
                tb = shape["plain"]
                ta = 1 - tb
                word = "wrapper" if shape.get("kind") != "flag_race" \
                    else "is_running"
                wsites = [i for i, s_ in enumerate(sites[tb])
                          if word in str(s_) or (
                              word == "is_running" and "acc:" in str(s_))] \
                    or list(range(len(sites[tb])))
                at_b = rng.randrange(len(sites[ta]))
                if shape.get("kind") == "flag_race":
                    # thread 0 stopped after its probe has read the old
                    # owner's record, thread 1 near the end of its call
                    reads_ = [i for i, s_ in enumerate(sites[tb])
                              if s_ == "acc:read"]
                    lo_ = reads_[0] + 1 if reads_ else 0
                    wsites = list(range(lo_, len(sites[tb]))) or wsites
                    at_b = max(0, len(sites[ta]) - rng.randrange(1, 14))
                pre = [{"t": tb, "at": rng.choice(wsites), "to": ta},
                       {"t": ta, "at": at_b, "to": tb}]
                if rng.random() < 0.3:
                    pre.append({"t": tb, "at": rng.choice(wsites), "to": ta})
                npre = 0
            for _ in range(npre):
                t = rng.randrange(nthreads)
                if not sites or t >= len(sites) or not sites[t]:
                    continue
                crit = [i for i, s in enumerate(sites[t])
                        if any(w in str(s) for w in crit_words)]
                if crit and rng.random() < 0.8:
                    at = rng.choice(crit)
                else:
                    at = rng.randrange(len(sites[t]))
                pre.append({"t": t, "at": at,
                            "to": rng.randrange(nthreads)})
            plan = dict(base, preempt=pre)
            r = W.execute_forked(plan)
            u["evals"] += 1
            self._absorb(u, plan, r)
            if j == 0 and isinstance(r, dict) and "digest" in r:
                r2 = W.execute_forked(plan)
                u["digest_checks"] += 1
                if r2.get("digest") != r.get("digest"):
                    u["harness_errors"].append(
                        "digest mismatch on re-execution (%s)" % prog)
        return u

    def _absorb(self, u, plan, r):
        if not isinstance(r, dict) or r.get("timeout"):
            u["timeouts"] += 1
            u["harness_errors"].append("wall-clock timeout in %s" %
                                       plan["prog"])
            return False
        if "harness_error" in r:
            u["harness_errors"].append(r["harness_error"] + " " +
                                       r.get("tb", "")[-900:])
            return False
        u["keys"].update(r.get("keys") or ())
        for kk, vv in (r.get("stats") or {}).items():
            u["stats"][kk] = u["stats"].get(kk, 0) + vv
        for kk, vv in (r.get("probes") or {}).items():
            u["stats"][kk] = u["stats"].get(kk, 0) + vv
        u["stats"]["voluntary_switches"] = u["stats"].get(
            "voluntary_switches", 0) + r.get("voluntary", 0)
        u["sim_time"] = u.get("sim_time", 0.0) + r.get("sim_time", 0.0)
        for v in r.get("violations") or []:
            u["violations"].append({"sig": list(sig_of(v)), "msg": v["msg"],
                                    "plan": plan})
        if r.get("sample") and "sample" not in u:
            u["sample"] = r["sample"]
        return True


Threads.RULE = (
    "C16s: seeded single-thread histories of enter / nested enter / exit / "
    "exit-by-exception / getter / as_dict / kernel-change events on one "
    "Process object; C16t/C04t/C07t/C10t: 2-3 real threads under the baton "
    "scheduler, a fault-free dry run lists every yield site (seam calls, "
    "psutil source lines, lock operations), then seeded plans place 1-4 "
    "(quick) / 1-8 (thorough) voluntary pre-emptions, 80% of them on sites "
    "inside the critical functions; distinct+non-trivial = distinct "
    "context-switch fingerprints (thread>thread@site)* containing a "
    "voluntary pre-emption inside a critical function, plus distinct "
    "(getter, in/out of block, outcome) cells for the single-thread part")
Threads.ASSUMPTIONS = [
    "pre-emption granularity is the source line (plus every seam call and "
    "lock operation); a race that needs a switch inside one bytecode "
    "sequence of a line is out of reach",
    "C16 threaded runs use single-source getters so that 'valid at some "
    "moment of the call' is decidable against per-version kernel snapshots",
    "values served from another thread's active oneshot cache are accepted "
    "(the cache is per object by design)",
    "free-threaded (no-GIL) builds are not modelled",
]
Threads.COMPONENTS = {
    "real": ["psutil/__init__.py", "psutil/_common.py "
             "(memoize_when_activated, _WrapNumbers)", "psutil/_pslinux.py"],
    "stub": ["thread scheduling (baton scheduler over real OS threads)",
             "threading.Lock/RLock (SimLock)", "Linux kernel (SimKernel)",
             "clocks"],
}
Threads.PROBES_BY_PROP = {
    "C16": ["same_answer_checked", "served_from_cache_while_changed",
            "setter_inside_block", "repeat_in_block_checked",
            "nested_enter", "call_right_after_exit", "valid_value_checked",
            "voluntary_switches", "block_exit_exit_exc"],
    "C04": ["voluntary_switches", "eventual_coherence_checked",
            "identity_through_threads_checked", "stale_objects_rechecked"],
    "C07": ["voluntary_switches", "per_thread_checked",
            "shared_process_checked"],
    "C10": ["voluntary_switches", "concurrent_checked", "lock_contended"],
}

ENGINE = Threads()
