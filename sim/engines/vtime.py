"""vtime engine -- C15: Process.wait() / wait_procs() on a virtual clock.

The exit (resp. reap) instant of every process is placed relative to psutil's
own deterministic poll schedule (0.1 ms doubling to 40 ms) and to the deadline;
EINTR can be delivered to any chosen waitpid call.  The oracle reads the log of
(virtual time, call) for waitpid, kill(pid, 0), clock reads and sleep().
"""

import json

from .base import EngineBase, exc_class, is_harness_exc
from ..runner import sig_of
from .. import seams

TIMEOUTS = [None, 0, 0.0, 1e-4, 0.039, 0.04, 0.041, 0.1, 1, 10, -1, -0.0,
            0.0005, 0.25, 3]
KINDS = ["child", "nonchild", "never"]
EXIT_CLASSES = ["before_call", "between_polls", "at_poll", "before_deadline",
                "at_deadline", "after_deadline", "late", "never",
                "in_last_interval"]


def poll_schedule(t0, n=400):
    out = [t0]
    interval = 0.0001
    t = t0
    for _ in range(n):
        t = t + interval
        out.append(t)
        interval = min(interval * 2, 0.04)
    return out


def expected_status(raw):
    if raw & 0x7f:
        return -(raw & 0x7f)
    return (raw >> 8) & 0xff


class VTime(EngineBase):
    name = "vtime"
    SHRINK_LISTS = [("ops",), ("eintr",), ("procs",)]

    def boot_config(self, rng):
        b = EngineBase.boot_config(self, rng)
        b["has_io"] = True
        return b

    # ------------------------------------------------------------------
    def gen_proc_spec(self, rng, pid, timeout, kind=None):
        kind = kind or rng.choice(KINDS + ["child", "child"])
        if timeout is None or timeout < 0:
            cls = rng.choice(["before_call", "between_polls", "at_poll",
                              "late_abs"])
        else:
            cls = rng.choice(EXIT_CLASSES)
        spec = {"pid": pid, "kind": kind, "exit": cls,
                "j": rng.randrange(0, 14), "frac": rng.choice(
                    [0.5, 0.01, 0.99, 0.25]),
                "eps": rng.choice([1e-6, 1e-9, 0.001, 0.02, 0.039]),
                "status": rng.choice([0, 1 << 8, 255 << 8, 9, 15, 11, 64,
                                      rng.randrange(0, 256) << 8,
                                      rng.randrange(1, 65),
                                      # killed by a signal, core dumped
                                      0x80 | 6, 0x80 | 11, 0x80 | 3,
                                      0x80 | rng.randrange(1, 65)]),
                "reap_lag": rng.choice([0.0, 0.0, 0.0005, 0.03, 0.5, 2.0])}
        return spec

    def gen_plan(self, rng, tier):
        mode = rng.choice(["wait", "wait", "wait", "wait_procs"])
        jitter = rng.choice([0.0, 0.0, 0.0, 0.0, 0.003])
        world = {"mono0": 50000.0 + rng.randrange(0, 1000) +
                 rng.choice([0.0, 0.125, 0.3]), "sleep_jitter": jitter,
                 "root": rng.random() < 0.85}
        if mode == "wait_procs" and rng.random() < 0.25:
            jitter = jitter or rng.choice([0.003, 0.0001])
            world["sleep_jitter"] = jitter
            world["clock_cost"] = rng.choice([0.0005, 0.004, 0.004, 0.011])
        elif jitter and rng.random() < 0.5:
            # (jitter configuration only) every reading of the clock takes a
            # little time too: a deadline may fall between two readings
            world["clock_cost"] = rng.choice([0.0005, 0.004, 0.004])
        plan = {"mode": mode, "world": world, "eintr": [], "jitter": jitter}
        steps_ = rng.random() < 0.12
        if mode == "wait":
            timeout = rng.choice(TIMEOUTS)
            plan["procs"] = [self.gen_proc_spec(rng, 5, timeout)]
            ops = [{"op": "wait", "timeout": timeout}]
            for _ in range(rng.choice([0, 0, 1, 2])):
                t2 = rng.choice(TIMEOUTS)
                if t2 is None and plan["procs"][0]["exit"] == "never":
                    t2 = 0.1
                if rng.random() < 0.5:
                    # another query on the same object between two waits
                    ops.append({"op": "poke", "m": rng.choice(
                        ["is_running", "is_running", "status", "name",
                         "children"])})
                ops.append({"op": "wait", "timeout": t2})
            if plan["procs"][0]["kind"] == "child" and rng.random() < 0.2:
                plan["procs"][0]["popen"] = True
                ops2 = []
                for o in ops:
                    if o["op"] == "wait" and rng.random() < 0.6:
                        ops2.append({"op": "poll"})
                    ops2.append(o)
                ops = ops2
                if rng.random() < 0.5:
                    # the child has ended (often with exit code 0) and the
                    # subprocess side has already collected it when psutil
                    # is asked
                    plan["procs"][0]["exit"] = "before_call"
                    plan["procs"][0]["status"] = rng.choice(
                        [0, 0, 0, 1 << 8, 9])
                    if ops[0]["op"] != "poll":
                        ops.insert(0, {"op": "poll"})
            plan["ops"] = ops
            if steps_:
                for o in ops:
                    if o["op"] == "wait" and o["timeout"]:
                        o["clock_steps"] = [{
                            "at": rng.choice([0.001, 0.01, 0.3]) * min(
                                1.0, max(0.01, o["timeout"])),
                            "delta": rng.choice([-3600.0, 3600.0, -5.0,
                                                 0.5])}]
            if rng.random() < 0.3:
                plan["eintr"].append({"op_id": 0,
                                      "n": rng.choice([0, 1, 2, 3, 5, 8, 12])})
                if rng.random() < 0.3:
                    plan["eintr"].append({"op_id": 0, "n": rng.randrange(14)})
        else:
            timeout = rng.choice([None, 0, 0.05, 0.3, 1, 2.5, 0.0005, -1, 3])
            n = rng.randrange(1, 7)
            plan["procs"] = [self.gen_proc_spec(rng, 5 + i, timeout)
                             for i in range(n)]
            for s in plan["procs"]:
                if s["exit"] in ("between_polls", "at_poll"):
                    s["exit"] = "rel_t0"
                    s["dt"] = rng.choice([0.0001, 0.001, 0.05, 0.2, 0.9, 1.7,
                                          rng.random() * 3])
            plan["ops"] = [{"op": "wait_procs", "timeout": timeout,
                            "cb": rng.random() < 0.7}]
            live = [s for s in plan["procs"] if s["kind"] != "never"]
            if rng.random() < 0.15:
                plan["dup_input"] = rng.randrange(0, 8)
            if rng.random() < 0.25:
                # "procs" is any iterable: a tuple, a set, or one that can
                # be walked only once (generator, map(), process_iter())
                plan["input_as"] = rng.choice(["tuple", "gen", "iter", "set",
                                               "gen"])
            if live and rng.random() < 0.15:
                plan["stale_twin"] = rng.choice(live)["pid"]
                plan["twin_at"] = rng.randrange(0, 8)
            if rng.random() < 0.4:
                # the same objects handed in again (a supervisor loop)
                plan["ops"].append({"op": "wait_procs", "timeout": rng.choice(
                    [0, 0.05, 1, None if all(s["exit"] != "never" for s in
                                             plan["procs"]) else 0.3]),
                    "cb": True})
        for j, op in enumerate(plan["ops"]):
            op["id"] = j
        first_wait = next((o["id"] for o in plan["ops"]
                           if o["op"] in ("wait", "wait_procs")), 0)
        for e in plan["eintr"]:
            e["op_id"] = first_wait
        return plan

    # ------------------------------------------------------------------
    def execute(self, W, plan):
        psutil = W.psutil
        world = dict(plan["world"])
        procs = []
        for s in plan["procs"]:
            if s["kind"] == "never" or s.get("popen") or \
                    plan.get("stale_twin") == s["pid"]:
                continue
            procs.append({"pid": s["pid"], "ppid": 1000 if s["kind"] ==
                          "child" else 1, "is_child": s["kind"] == "child",
                          "comm": "w%d" % s["pid"]})
        world["procs"] = procs
        world["max_acc"] = 60000
        if any(s.get("popen") for s in plan["procs"]):
            # the simulated fork hands out the lowest free PID
            world["pid_lo"] = min(s["pid"] for s in plan["procs"]
                                  if s.get("popen"))
        k = self.make_kernel(W.boot, world)
        self.install(k)
        viol = []
        keys = set()
        probes = {}
        sample = []

        def V(clause, tags, api, msg):
            viol.append({"clause": clause, "tags": sorted(set(tags)),
                         "api": api, "msg": msg})

        # handles are created while every process is alive (a never-existed
        # pid gets its handle from a short-lived stand-in that is then
        # removed, which is how a "pid that no longer exists" arises)
        handles = {}
        k.begin_op(0)
        for s in plan["procs"]:
            if s["kind"] == "never":
                k.spawn(pid=s["pid"], ppid=1, comm=b"ghost")
            if plan.get("stale_twin") == s["pid"] and s["kind"] != "never":
                # the PID had a previous owner the application still holds a
                # (finished, waited-for) handle on
                k.spawn(pid=s["pid"], ppid=1, comm=b"old")
                twin = psutil.Process(s["pid"])
                k.apply_event({"ev": "vanish", "pid": s["pid"]})
                try:
                    twin.wait(0)
                except psutil.Error:
                    pass
                handles["twin"] = twin
                k.spawn(pid=s["pid"], ppid=1000 if s["kind"] == "child"
                        else 1, is_child=s["kind"] == "child",
                        comm="w%d" % s["pid"])
                probes["stale_twin_handle"] = 1
            if s.get("popen"):
                # a psutil.Popen: the subprocess side may reap the child
                # (poll()) before psutil's wait() is asked
                handles[s["pid"]] = psutil.Popen(["w%d" % s["pid"]])
                if handles[s["pid"]].pid != s["pid"]:
                    raise seams.HarnessError("popen pid %r" % (
                        handles[s["pid"]].pid,))
                probes["popen_child"] = 1
                continue
            handles[s["pid"]] = psutil.Process(s["pid"])
            if s["kind"] == "never":
                k.apply_event({"ev": "vanish", "pid": s["pid"]})
        k.end_op()
        incs = {pid: (k.procs[pid].inc if pid in k.procs else None)
                for pid in handles}
        specs = {s["pid"]: s for s in plan["procs"]}
        scheduled = False
        ends = {}      # pid -> end instant (None: never; -1: before call)
        cached = {}    # pid -> ("value", v)
        jitter = plan.get("jitter", 0.0)

        def schedule(t0, timeout):
            polls = poll_schedule(t0)
            D = None
            if timeout is not None and timeout >= 0:
                D = t0 + timeout
            for s in plan["procs"]:
                pid = s["pid"]
                if s["kind"] == "never":
                    ends[pid] = -1.0
                    continue
                cls = s["exit"]
                t = None
                if cls == "before_call":
                    t = t0
                elif cls == "between_polls":
                    j = s["j"]
                    t = polls[j] + (polls[j + 1] - polls[j]) * s["frac"]
                elif cls == "at_poll":
                    t = polls[max(1, s["j"])]
                elif cls == "rel_t0":
                    t = t0 + s["dt"]
                elif cls == "late_abs":
                    t = t0 + 0.7
                elif cls == "never" or D is None:
                    t = None if cls == "never" else t0 + 0.01
                elif cls == "before_deadline":
                    t = max(t0, D - s["eps"])
                elif cls == "in_last_interval":
                    t = max(t0, D - 0.02)
                elif cls == "at_deadline":
                    t = D
                elif cls == "after_deadline":
                    t = D + s["eps"]
                elif cls == "late":
                    t = D + 1.0
                if t is None:
                    ends[pid] = None
                    continue
                child = s["kind"] == "child"
                if t <= t0:
                    k.apply_event({"ev": "exit", "pid": pid, "reap": False,
                                   "status": s["status"]})
                    if not child:
                        if s["reap_lag"] > 0:
                            k.schedule_at_time(t0 + s["reap_lag"],
                                               {"ev": "reap", "pid": pid})
                            ends[pid] = t0 + s["reap_lag"]
                        else:
                            k.apply_event({"ev": "reap", "pid": pid})
                            ends[pid] = -1.0
                    else:
                        ends[pid] = -1.0
                else:
                    k.schedule_at_time(t, {"ev": "exit", "pid": pid,
                                           "reap": False,
                                           "status": s["status"]})
                    if child:
                        ends[pid] = t
                    else:
                        k.schedule_at_time(t + s["reap_lag"],
                                           {"ev": "reap", "pid": pid})
                        ends[pid] = t + s["reap_lag"]

        for idx, op in enumerate(plan["ops"], start=1):
            if op["op"] == "poll":
                h_ = handles[plan["procs"][0]["pid"]]
                k.begin_op(idx)
                try:
                    if hasattr(h_, "poll"):
                        h_.poll()
                        probes["subprocess_poll"] = probes.get(
                            "subprocess_poll", 0) + 1
                except BaseException as e:  # noqa: BLE001
                    if is_harness_exc(e):
                        raise
                k.end_op()
                continue
            if op["op"] == "poke":
                k.begin_op(idx)
                try:
                    getattr(handles[plan["procs"][0]["pid"]], op["m"])()
                except BaseException as e:  # noqa: BLE001
                    if is_harness_exc(e):
                        raise
                k.end_op()
                probes["query_between_waits"] = probes.get(
                    "query_between_waits", 0) + 1
                continue
            timeout = op["timeout"]
            t0 = k.mono
            if not scheduled:
                schedule(t0, timeout)
                scheduled = True
            for cs in op.get("clock_steps") or []:
                # the system (wall) clock is stepped while the call waits:
                # deadlines are a matter of the monotonic clock
                k.schedule_at_time(t0 + cs["at"], {"ev": "clock_step",
                                                   "delta": cs["delta"]})
                probes["wall_clock_stepped_during_wait"] = probes.get(
                    "wall_clock_stepped_during_wait", 0) + 1
            for e in plan.get("eintr") or []:
                if e["op_id"] == op.get("id"):
                    k.fault_kind[(0, idx, "waitpid", e["n"])] = {
                        "kind": "EINTR", "exc": "EINTR"}
            acc0 = len(k.acclog)
            f0 = k.stats.get("fault_EINTR", 0)
            k.begin_op(idx)
            cb_calls = []
            try:
                if op["op"] == "wait":
                    h = handles[plan["procs"][0]["pid"]]
                    out = ("value", h.wait(timeout))
                else:
                    hs = [handles[s["pid"]] for s in plan["procs"]]
                    if "twin" in handles:
                        hs.insert(plan.get("twin_at", 0) % (len(hs) + 1),
                                  handles["twin"])
                    if plan.get("dup_input") is not None and hs:
                        # the same handle handed in twice
                        hs.append(hs[plan["dup_input"] % len(hs)])
                    cb = (lambda p: cb_calls.append(p)) if op.get("cb") \
                        else None
                    arg = hs
                    kind_ = plan.get("input_as")
                    if kind_ == "tuple":
                        arg = tuple(hs)
                    elif kind_ == "gen":
                        arg = (h_ for h_ in hs)
                    elif kind_ == "iter":
                        arg = iter(hs)
                    elif kind_ == "set" and plan.get("dup_input") is None \
                            and "twin" not in handles:
                        arg = set(hs)
                    out = ("value", psutil.wait_procs(arg, timeout=timeout,
                                                      callback=cb))
            except BaseException as e:  # noqa: BLE001
                from ..kernel import StepLimit
                if isinstance(e, StepLimit):
                    # the call is still polling after the whole seam-call
                    # budget: with every process of the plan ending at a
                    # finite virtual time this is a wait that never returns
                    pend = [ends.get(s_["pid"]) for s_ in plan["procs"]]
                    if all(x is not None for x in pend):
                        V("C15.returns", [op["op"], "never_returns"] + (
                            ["eintr"] if k.stats.get("fault_EINTR", 0) - f0
                            else []) + sorted({s_["kind"]
                                               for s_ in plan["procs"]}),
                          op["op"], "%s(%r) was still polling after %d seam "
                          "calls and %.1f virtual seconds; the processes "
                          "ended at t0+%r" % (
                              op["op"], timeout, k.nacc, k.mono - t0,
                              [round(x - t0, 4) if x > 0 else "before"
                               for x in pend]))
                        break
                if is_harness_exc(e):
                    raise
                out = ("exc", e)
            k.end_op()
            t_ret = k.mono
            acc = k.acclog[acc0:]
            eintr_fired = k.stats.get("fault_EINTR", 0) - f0
            sleeps = [(a[9], a[4]) for a in acc if a[3] == "sleep"]
            D = t0 + timeout if (timeout is not None and timeout >= 0) \
                else None
            tclass = ("none" if timeout is None else "neg" if timeout < 0
                      else "zero" if timeout == 0 else "pos")
            if op["op"] == "wait":
                s = plan["procs"][0]
                pid = s["pid"]
                end = ends.get(pid)
                self.check_wait(psutil, V, s, pid, timeout, out, acc, sleeps,
                                t0, t_ret, D, end, cached, jitter,
                                eintr_fired, k, incs)
                keys.add("wait|%s|%s|%s|%s|%s" % (
                    s["kind"], tclass, s["exit"], eintr_fired > 0,
                    out[0] if out[0] == "value" else exc_class(psutil,
                                                               out[1])))
                if eintr_fired:
                    probes["eintr_fired"] = probes.get("eintr_fired", 0) + 1
                if D is not None and end is not None and 0 < D - end < 0.04:
                    probes["exit_between_last_poll_and_deadline"] = 1
                if D is not None and end == D:
                    probes["exit_exactly_at_deadline"] = 1
            else:
                self.check_wait_procs(psutil, V, plan, handles, timeout, out,
                                      sleeps, t0, t_ret, D, ends, cb_calls,
                                      jitter, op, k)
                keys.add("wait_procs|%d|%s|%s" % (
                    len(plan["procs"]), tclass,
                    ",".join(sorted({s["kind"][0] + ":" + s["exit"]
                                     for s in plan["procs"]}))[:80]))
            if len(sample) < 4:
                sample.append("%s(timeout=%r) kind=%s exit=%s -> %s at "
                              "t0+%.6f, %d sleeps" % (
                                  op["op"], timeout, plan["procs"][0]["kind"],
                                  plan["procs"][0]["exit"],
                                  repr(out[1])[:60], t_ret - t0,
                                  len(sleeps)))
        return {"violations": viol, "digest": k.digest.hexdigest(),
                "stats": dict(k.stats), "probes": probes,
                "keys": sorted(keys), "sim_time": k.mono - float(
                    plan["world"]["mono0"]), "sample": sample}

    # ------------------------------------------------------------------
    def check_wait(self, psutil, V, s, pid, timeout, out, acc, sleeps, t0,
                   t_ret, D, end, cached, jitter, eintr_fired, k, incs):
        api = "wait"
        tags = [s["kind"]]
        if eintr_fired:
            tags.append("eintr")
        if jitter:
            tags.append("jitter")
        os_acc = [a for a in acc if a[2] >= 0]
        if timeout is not None and timeout < 0:
            if not (out[0] == "exc" and isinstance(out[1], ValueError)):
                V("C15.negative", tags, api, "wait(%r) -> %r, expected "
                  "ValueError" % (timeout, out[1]))
            if os_acc or sleeps:
                V("C15.negative", tags + ["access"], api,
                  "wait(%r) touched the OS" % (timeout,))
            return
        if pid in cached:
            if out != cached[pid]:
                V("C15.cached", tags, api, "wait() returned %r after having "
                  "returned %r" % (out[1], cached[pid][1]))
            if os_acc or sleeps:
                V("C15.cached", tags + ["access"], api, "wait() on an object "
                  "that already has its status touched the OS again (%d "
                  "accesses)" % len(os_acc))
            return
        # polls
        if sleeps:
            if abs(sleeps[0][1] - 0.0001) > 1e-12:
                V("C15.polls", tags + ["first"], api,
                  "first sleep is %r, not 0.0001" % (sleeps[0][1],))
            big = [dt for _, dt in sleeps if dt > 0.04 + 1e-12]
            if big:
                V("C15.polls", tags + ["max"], api,
                  "sleep of %r s exceeds the 40 ms cap" % (big[0],))
        if timeout == 0 and sleeps:
            V("C15.zero_never_sleeps", tags, api,
              "wait(0) slept %d time(s): %r" % (len(sleeps), sleeps[:3]))
        if s["kind"] == "never" and sleeps:
            V("C15.at_once", tags, api, "pid never existed but wait() slept "
              "%d time(s)" % len(sleeps))
        if D is not None:
            late = [st for st, _ in sleeps if st >= D]
            if late:
                V("C15.one_poll_late", tags + ["sleep_after_deadline"], api,
                  "a sleep was started at deadline%+.6f" % (late[0] - D))
        if out[0] == "exc":
            e = out[1]
            if isinstance(e, psutil.TimeoutExpired):
                if timeout is None:
                    V("C15.timeout_legit", tags + ["no_timeout"], api,
                      "TimeoutExpired without a timeout")
                    return
                if e.seconds != timeout or e.pid != pid:
                    V("C15.timeout_legit", tags + ["fields"], api,
                      "TimeoutExpired(seconds=%r, pid=%r), expected (%r, %r)"
                      % (e.seconds, e.pid, timeout, pid))
                if t_ret < D:
                    V("C15.timeout_legit", tags + ["before_deadline"], api,
                      "TimeoutExpired raised at deadline%+.6f" % (t_ret - D))
                alive_at_D = end is None or end > D
                if not alive_at_D:
                    V("C15.timeout_legit", tags + ["already_ended"], api,
                      "TimeoutExpired although the process had ended at "
                      "deadline%+.6f (raised at deadline%+.6f)" % (
                          (end - D) if end >= 0 else float("-inf"),
                          t_ret - D))
                if not jitter and t_ret > D + 0.04 + 1e-9:
                    V("C15.one_poll_late", tags + ["late_raise"], api,
                      "TimeoutExpired raised %.6f s after the deadline" %
                      (t_ret - D))
            else:
                V("C15.exception", tags + [type(e).__name__], api,
                  "wait(%r) raised %r" % (timeout, e))
            return
        val = out[1]
        cached[pid] = out
        # not early
        if end is None or (end >= 0 and end > t_ret):
            V("C15.not_early", tags, api, "wait() returned %r at t0+%.6f but "
              "the process %s" % (val, t_ret - t0, "never ended" if end is
                                  None else "ends at t0+%.6f" % (end - t0)))
            return
        if s["kind"] == "child":
            want = expected_status(s["status"])
            if val != want or val is None or isinstance(val, bool):
                V("C15.status", tags + ["signal" if s["status"] & 0x7f
                                        else "code"], api,
                  "wait() -> %r, expected %r (raw status %d)" % (
                      val, want, s["status"]))
        else:
            if val is not None:
                V("C15.status", tags + ["non_child_value"], api,
                  "wait() -> %r for a non-child, expected None" % (val,))

    def check_wait_procs(self, psutil, V, plan, handles, timeout, out, sleeps,
                         t0, t_ret, D, ends, cb_calls, jitter, op, k):
        api = "wait_procs"
        tags = ["jitter"] if jitter else []
        if timeout is not None and timeout < 0:
            if not (out[0] == "exc" and isinstance(out[1], ValueError)):
                V("C15.negative", tags, api, "wait_procs(timeout=%r) -> %r" %
                  (timeout, out[1]))
            return
        if out[0] == "exc":
            V("C15.exception", tags + [type(out[1]).__name__], api,
              "wait_procs raised %r" % (out[1],))
            return
        gone, alive = out[1]
        inputs = [handles[s["pid"]] for s in plan["procs"]]
        twin = handles.get("twin")
        if twin is not None:
            inputs.append(twin)
            if sum(1 for x in gone if x is twin) != 1 or any(
                    x is twin for x in alive):
                V("C15.partition", tags + ["stale_twin"], api, "the handle "
                  "of the PID's previous (finished) owner is %d times in "
                  "gone, %d times in alive" % (
                      sum(1 for x in gone if x is twin),
                      sum(1 for x in alive if x is twin)))
            elif getattr(twin, "returncode", "missing") is not None:
                V("C15.returncode", tags + ["stale_twin"], api,
                  "returncode of the previous owner's handle is %r" % (
                      getattr(twin, "returncode", "missing"),))
            if op.get("cb") and sum(1 for c in cb_calls if c is twin) != 1:
                V("C15.callback", tags + ["count", "stale_twin"], api,
                  "callback called %d times for the previous owner's "
                  "handle" % sum(1 for c in cb_calls if c is twin))
            gone = [x for x in gone if x is not twin]
            alive = [x for x in alive if x is not twin]
            inputs_chk = [x for x in inputs if x is not twin]
        else:
            inputs_chk = inputs
        gi = [id(x) for x in gone]
        ai = [id(x) for x in alive]
        if set(gi) & set(ai) or len(set(gi)) != len(gi) or \
                len(set(ai)) != len(ai) or \
                set(gi) | set(ai) != {id(x) for x in inputs_chk}:
            V("C15.partition", tags, api, "gone=%r alive=%r do not partition "
              "the %d inputs" % ([p.pid for p in gone], [p.pid for p in alive],
                                 len(inputs)))
        for p in gone:
            s = [x for x in plan["procs"] if x["pid"] == p.pid][0]
            end = ends.get(p.pid)
            if not hasattr(p, "returncode"):
                V("C15.returncode", tags + ["missing"], api,
                  "gone process %d has no returncode" % p.pid)
            else:
                want = expected_status(s["status"]) if s["kind"] == "child" \
                    else None
                if p.returncode != want:
                    V("C15.returncode", tags + [s["kind"]], api,
                      "returncode of %d is %r, expected %r" % (
                          p.pid, p.returncode, want))
            if end is None or (end >= 0 and end > t_ret):
                V("C15.not_early", tags + ["gone"], api, "process %d reported "
                  "gone but it has not ended" % p.pid)
            n = sum(1 for c in cb_calls if c is p)
            if op.get("cb") and n != 1:
                V("C15.callback", tags + ["count"], api,
                  "callback called %d times for gone process %d" % (n, p.pid))
        for p in alive:
            end = ends.get(p.pid)
            if any(c is p for c in cb_calls):
                V("C15.callback", tags + ["alive"], api,
                  "callback called for alive process %d" % p.pid)
            if D is None:
                V("C15.wait_procs_alive", tags + ["no_timeout"], api,
                  "process %d reported alive with timeout=None" % p.pid)
            elif end is not None and end <= D:
                V("C15.wait_procs_alive", tags + ["ended_before_deadline"],
                  api, "process %d reported alive but it ended at "
                  "deadline%+.6f" % (p.pid, (end - D) if end >= 0
                                     else float("-inf")))
        if D is not None and not jitter and t_ret > D + 0.04 + 1e-9:
            V("C15.wait_procs_late", tags, api, "wait_procs returned %.6f s "
              "after the deadline" % (t_ret - D))
        big = [dt for _, dt in sleeps if dt > 0.04 + 1e-12]
        if big:
            V("C15.polls", tags + ["max"], api, "sleep of %r s" % (big[0],))

    # ------------------------------------------------------------------
    def run_unit(self, W, unit_seed, tier):
        rng = self.rng("vt", unit_seed)
        plan = self.gen_plan(rng, tier)
        r = W.execute_forked(plan)
        u = {"evals": 1, "keys": set(), "stats": {}, "violations": [],
             "harness_errors": [], "timeouts": 0, "digest_checks": 0}
        if not isinstance(r, dict) or r.get("timeout"):
            u["timeouts"] = 1
            u["harness_errors"].append("wall-clock timeout, plan %s" %
                                       json.dumps(plan)[:300])
            return u
        if "harness_error" in r:
            u["harness_errors"].append(r["harness_error"] + " " +
                                       r.get("tb", "")[-700:])
            return u
        u["keys"].update(r.get("keys") or ())
        for kk, vv in (r.get("stats") or {}).items():
            u["stats"][kk] = u["stats"].get(kk, 0) + vv
        for kk, vv in (r.get("probes") or {}).items():
            u["stats"][kk] = u["stats"].get(kk, 0) + vv
        u["sim_time"] = r.get("sim_time", 0.0)
        if (unit_seed % 50) == 0:
            r2 = W.execute_forked(plan)
            u["digest_checks"] = 1
            if r2.get("digest") != r.get("digest"):
                u["harness_errors"].append("digest mismatch on re-execution")
        for v in r.get("violations") or []:
            u["violations"].append({"sig": list(sig_of(v)), "msg": v["msg"],
                                    "plan": plan})
        if r.get("sample"):
            u["sample"] = r["sample"]
        return u


VTime.RULE = (
    "each run = one seeded scenario on the virtual clock: kind (child / "
    "non-child / never-existed) x timeout class x exit-instant class placed "
    "relative to psutil's poll schedule and the deadline x EINTR positions x "
    "jitter, for wait() (with repeated calls) and wait_procs(1-6 procs); "
    "distinct+non-trivial = distinct (api, kind, timeout class, exit class, "
    "eintr fired, outcome class) cells actually executed")
VTime.ASSUMPTIONS = [
    "system calls take zero virtual time, so 'one poll late' is measured "
    "exactly; under the jitter configuration only jitter-proof clauses are "
    "evaluated",
    "no PID reuse (a recycled PID makes a non-child wait unbounded by design)",
    "a non-child has 'ended' when it is reaped (pid_exists() cannot tell a "
    "zombie from a live process)",
]
VTime.COMPONENTS = {
    "real": ["psutil/_psposix.py (wait_pid)", "psutil/__init__.py "
             "(Process.wait, wait_procs)", "psutil/_pslinux.py"],
    "stub": ["waitpid/kill(pid,0)/procfs (SimKernel)",
             "time.monotonic/time.sleep (virtual clock, discrete events)"],
}
VTime.PROBES = ["eintr_fired", "exit_between_last_poll_and_deadline",
                "query_between_waits", "wall_clock_stepped_during_wait",
                "exit_exactly_at_deadline", "ev_exit", "ev_reap"]

ENGINE = VTime()
