"""selftest-fidelity: calibrate the stub kernel against the HOST kernel.

(1) Format: the real /proc files of real processes created for the purpose
    are decoded by an independent field reader and compared, field by field,
    with what SimKernel renders for a SimProc built from the same facts - on
    exactly the fields and line shapes psutil reads.
(2) Errors: for a real zombie, a real reaped child and a real thread id the
    errno / empty-read behaviour of every /proc/<pid>/* access psutil makes is
    recorded and compared with the model's behaviour for the same state.

Nothing here imports psutil. Exit 0: model agrees with this host; exit 2:
mismatches (printed). Kernel-version dependent rows are listed as such.
"""

import errno
import os
import re
import signal
import sys
import threading
import time

from . import kernel as K


def real(path, how="read"):
    """('ok', data) or ('err', errno-name)"""
    try:
        if how == "read":
            with open(path, "rb") as f:
                return ("ok", f.read())
        if how == "readlink":
            return ("ok", os.readlink(path))
        if how == "listdir":
            return ("ok", sorted(os.listdir(path)))
        if how == "stat":
            os.stat(path)
            return ("ok", None)
    except OSError as e:
        return ("err", errno.errorcode.get(e.errno, str(e.errno)))


def sim(k, path, how="read"):
    try:
        if how == "read":
            f = k.k_open(path)
            return ("ok", f.read())
        if how == "readlink":
            return ("ok", k.k_readlink(path))
        if how == "listdir":
            return ("ok", sorted(k.k_listdir(path)))
        if how == "stat":
            k.k_stat(path)
            return ("ok", None)
    except OSError as e:
        return ("err", errno.errorcode.get(e.errno, str(e.errno)))


def split_stat(data):
    rpar = data.rfind(b")")
    return data[:data.find(b"(")].strip(), data[data.find(b"(") + 1:rpar], \
        data[rpar + 2:].split()


def check_formats(out):
    bad = 0
    me = os.getpid()
    # --- /proc/<pid>/stat
    st = open("/proc/%d/stat" % me, "rb").read()
    pid_b, comm, f = split_stat(st)
    k = K.SimKernel({})
    p = k.spawn(pid=77, ppid=int(f[1]), comm=comm, state=f[0].decode(),
                starttime=int(f[19]), utime=int(f[11]), stime=int(f[12]),
                cutime=int(f[13]), cstime=int(f[14]), blkio=int(f[39]),
                tty_nr=int(f[4]), cpu=int(f[36]))
    _, comm2, g = split_stat(k.render_stat(p))
    rows = [("field count after comm", len(f), len(g)), ("comm", comm, comm2)]
    for name, i in (("state", 0), ("ppid", 1), ("tty_nr", 4), ("utime", 11),
                    ("stime", 12), ("cutime", 13), ("cstime", 14),
                    ("starttime", 19), ("processor", 36), ("blkio", 39)):
        rows.append(("stat." + name, f[i], g[i]))
    # --- status line shapes
    real_status = open("/proc/%d/status" % me, "rb").read()
    sim_status = k.render_status(p)
    for rx in (br"^Name:\t.*$", br"^Tgid:\t\d+$", br"^Pid:\t\d+$",
               br"^PPid:\t\d+$", br"^Uid:\t\d+\t\d+\t\d+\t\d+$",
               br"^Gid:\t\d+\t\d+\t\d+\t\d+$", br"^Threads:\t\d+$",
               br"^Cpus_allowed_list:\t[\d,-]+$",
               br"^voluntary_ctxt_switches:\t\d+$",
               br"^nonvoluntary_ctxt_switches:\t\d+$"):
        rows.append(("status " + rx.decode(),
                     bool(re.search(rx, real_status, re.M)),
                     bool(re.search(rx, sim_status, re.M))))
    # --- statm, io, fdinfo
    rows.append(("statm ints", len(open("/proc/%d/statm" % me).read().split()),
                 len(k.render_statm(p).split())))
    rio = [l.split(b": ")[0] for l in open("/proc/%d/io" % me, "rb")]
    sio = [l.split(b": ")[0] for l in k.render_io(p).splitlines()]
    rows.append(("io keys", rio, sio))
    fd = os.open("/proc/self/stat", os.O_RDONLY)
    rfi = open("/proc/%d/fdinfo/%d" % (me, fd), "rb").read().splitlines()[:2]
    os.close(fd)
    sfi = k.render_fdinfo({"pos": 0, "flags": 0o100000}).splitlines()[:2]
    rows.append(("fdinfo line 1 shape", bool(re.match(br"pos:\t\d+$", rfi[0])),
                 bool(re.match(br"pos:\t\d+$", sfi[0]))))
    rows.append(("fdinfo line 2 shape",
                 bool(re.match(br"flags:\t0[0-7]+$", rfi[1])),
                 bool(re.match(br"flags:\t0[0-7]+$", sfi[1]))))
    # --- /proc/stat, net/dev, diskstats
    rs = open("/proc/stat", "rb").read().splitlines()
    ss = k.render_proc_stat().splitlines()
    rows.append(("/proc/stat cpu fields", len(rs[0].split()) - 1,
                 len(ss[0].split()) - 1))
    rows.append(("/proc/stat first line", rs[0][:5], ss[0][:5]))
    rows.append(("/proc/stat btime line",
                 any(re.match(br"btime \d+$", l) for l in rs),
                 any(re.match(br"btime \d+$", l) for l in ss)))
    rn = open("/proc/net/dev", "rb").read().splitlines()
    sn = k.render_net_dev().splitlines()
    rows.append(("net/dev header lines", [l.count(b"|") for l in rn[:2]],
                 [l.count(b"|") for l in sn[:2]]))
    rows.append(("net/dev data columns",
                 len(rn[2].split(b":")[1].split()),
                 len(sn[2].split(b":")[1].split())))
    for name, a, b in rows:
        ok = a == b
        bad += not ok
        out.append("%s format %-48s host=%r model=%r" % (
            "ok  " if ok else "DIFF", name, a, b))
    return bad


ERR_ROWS = [
    # (state, what, how)
    ("zombie", "stat", "read"), ("zombie", "status", "read"),
    ("zombie", "statm", "read"), ("zombie", "cmdline", "read"),
    ("zombie", "environ", "read"), ("zombie", "io", "read"),
    ("zombie", "smaps", "read"), ("zombie", "smaps_rollup", "read"),
    ("zombie", "exe", "readlink"), ("zombie", "cwd", "readlink"),
    ("zombie", "fd", "listdir"), ("zombie", "task", "listdir"),
    ("zombie", "", "stat"),
    ("reaped", "stat", "read"), ("reaped", "exe", "readlink"),
    ("reaped", "fd", "listdir"), ("reaped", "", "stat"),
]


def summarize(r, what):
    if r[0] == "err":
        return r
    d = r[1]
    if what in ("cmdline", "smaps", "environ", "smaps_rollup"):
        return ("ok", "empty" if not d else "nonempty")
    if what == "statm":
        return ("ok", d.strip())
    if what == "stat":
        return ("ok", split_stat(d)[2][0])
    if what in ("fd",):
        return ("ok", "empty" if not d else "nonempty")
    if what == "task":
        return ("ok", len(d))
    if what in ("status", "io", ""):
        return ("ok", "readable")
    return ("ok", d if isinstance(d, (str, int)) else "data")


def check_errors(out):
    bad = 0
    pid = os.fork()
    if pid == 0:
        os._exit(7)
    # wait until it is a zombie (not reaped: we do not call waitpid yet)
    for _ in range(200):
        try:
            if split_stat(open("/proc/%d/stat" % pid, "rb").read())[2][0] \
                    == b"Z":
                break
        except OSError:
            pass
        time.sleep(0.01)
    k = K.SimKernel({"procs": [{"pid": 77, "ppid": 1000, "is_child": True,
                                "fds": {"3": {"kind": "file",
                                              "target": "/tmp/x", "pos": 0,
                                              "flags": 0, "ino": 1}}}]})
    k.apply_event({"ev": "zombify", "pid": 77})
    results = {}
    for state, what, how in ERR_ROWS:
        if state != "zombie":
            continue
        rp = "/proc/%d/%s" % (pid, what) if what else "/proc/%d" % pid
        sp = "/proc/77/%s" % what if what else "/proc/77"
        results[(state, what, how)] = (summarize(real(rp, how), what),
                                       summarize(sim(k, sp, how), what))
    # a file opened while the process lived, read after it was reaped
    pre = {}
    for what in ("stat", "status", "cmdline", "environ"):
        try:
            pre[what] = open("/proc/%d/%s" % (pid, what), "rb")
        except OSError:
            pre[what] = None
    simpre = {}
    k2 = K.SimKernel({"procs": [{"pid": 78, "ppid": 1000}]})
    for what in ("stat", "status", "cmdline", "environ"):
        simpre[what] = k2.k_open("/proc/78/%s" % what)
    os.waitpid(pid, 0)
    k.apply_event({"ev": "reap", "pid": 77})
    k2.apply_event({"ev": "vanish", "pid": 78})
    for state, what, how in ERR_ROWS:
        if state != "reaped":
            continue
        rp = "/proc/%d/%s" % (pid, what) if what else "/proc/%d" % pid
        sp = "/proc/77/%s" % what if what else "/proc/77"
        results[(state, what, how)] = (summarize(real(rp, how), what),
                                       summarize(sim(k, sp, how), what))
    for what in ("stat", "status", "cmdline"):
        # NB the real zombie's files were opened when it was already a
        # zombie; the errno of a read after reaping is what matters
        try:
            d = pre[what].read() if pre[what] else None
            r = ("ok", "empty" if not d else "nonempty")
        except OSError as e:
            r = ("err", errno.errorcode.get(e.errno))
        try:
            d = simpre[what].read()
            s = ("ok", "empty" if not d else "nonempty")
        except OSError as e:
            s = ("err", errno.errorcode.get(e.errno))
        results[("read-after-reap", what, "read")] = (r, s)
    # thread id: not listed, but /proc/<tid>/status opens, kill(tid, 0) works
    box = {}
    ev = threading.Event()
    done = threading.Event()

    def thr():
        box["tid"] = threading.get_native_id()
        ev.set()
        done.wait(5)

    t = threading.Thread(target=thr)
    t.start()
    ev.wait(5)
    tid = box["tid"]
    k3 = K.SimKernel({"procs": [{"pid": 80, "ppid": 1,
                                 "threads": {"80": ["a", 0, 0],
                                             "8001": ["b", 0, 0]}}]})
    results[("tid", "listed", "listdir")] = (
        ("ok", str(tid) in os.listdir("/proc")),
        ("ok", "8001" in k3.k_listdir("/proc")))
    rs = real("/proc/%d/status" % tid)
    ss = sim(k3, "/proc/8001/status")
    results[("tid", "status Tgid != Pid", "read")] = (
        ("ok", re.search(br"^Tgid:\t(\d+)$", rs[1], re.M).group(1) !=
         re.search(br"^Pid:\t(\d+)$", rs[1], re.M).group(1)),
        ("ok", re.search(br"^Tgid:\t(\d+)$", ss[1], re.M).group(1) !=
         re.search(br"^Pid:\t(\d+)$", ss[1], re.M).group(1)))
    try:
        os.kill(tid, 0)
        rk = ("ok", None)
    except OSError as e:
        rk = ("err", errno.errorcode.get(e.errno))
    try:
        k3.k_kill(8001, 0)
        sk = ("ok", None)
    except OSError as e:
        sk = ("err", errno.errorcode.get(e.errno))
    results[("tid", "kill(tid, 0)", "syscall")] = (rk, sk)
    done.set()
    t.join()
    for key in sorted(results):
        r, s = results[key]
        ok = r == s
        bad += not ok
        out.append("%s errno  %-14s %-22s %-9s host=%r model=%r" % (
            "ok  " if ok else "DIFF", key[0], key[1] or "(dir)", key[2], r,
            s))
    return bad


def main():
    out = []
    bad = check_formats(out) + check_errors(out)
    for line in out:
        print(line)
    print("selftest-fidelity: %d rows, %d differ from the host kernel (%s)" %
          (len(out), bad, os.uname().release))
    if bad:
        print("HARNESS-ERROR the kernel model disagrees with this host")
        return 2
    return 0
