"""Seeded generators for simulated worlds (shared by the engines)."""

COMMS = [
    "sh", "python3", "a", "kworker/0:1", "a b", "x)", "(y", ") (", "a) S 1",
    "fifteen-chars-x", "exactly15bytes!", "tab\tname", "nl\nname",
    "\xff\xfe", "", ")))", "((", "migration/0", "z" * 15, "Web Content",
    "gnome-keyring-d", "Tgid: 1", "Tgid:\t202", "PPid:\t1", "Uid:\t0\t0\t0\t0",
    "State:\tZ (zom", "Threads:\t99", "a\nPPid:\t1",
]

STATES = ["S", "R", "D", "T", "t", "I", "S", "S", "R"]


def pick(rng, seq):
    return seq[rng.randrange(len(seq))]


def gen_fd(rng, fd, files):
    """Return (descriptor dict); may add backing files to `files`."""
    kind = pick(rng, ["file", "file", "file", "deleted", "dir", "chr",
                      "socket", "pipe", "anon", "rel", "unstatable",
                      "badlink"])
    acc = pick(rng, [0, 0, 1, 2, 2, 1])
    flags = acc
    for bit in (0o2000, 0o100, 0o1000, 0o2000000, 0o4000, 0o100000):
        if rng.random() < 0.3:
            flags |= bit
    pos = pick(rng, [0, 0, 5, 4096, 2 ** 31, 2 ** 40, 2 ** 63 - 1])
    d = {"kind": kind, "pos": pos, "flags": flags, "ino": 100 + fd}
    if kind == "file":
        path = pick(rng, ["/tmp/f%d" % fd, "/var/log/x %d.log" % fd,
                          "/data/a:b%d" % fd, "/tmp/report%d (deleted)" % fd,
                          "/tmp/f%d" % fd, "/var/log/x %d.log" % fd,
                          "/data/a:b%d" % fd, "/tmp/report%d (deleted)" % fd,
                          # regular files in places better known for other
                          # kinds of node: POSIX shared memory / semaphores,
                          # a file below /proc-like or /sys-like names, "/"
                          "/dev/shm/seg%d" % fd, "/dev/shm/sem.s%d" % fd,
                          "/dev/mqueue/q%d" % fd, "/run/sock%d" % fd,
                          "/sys-backup/f%d" % fd, "/procdata/%d" % fd,
                          "/f%d" % fd, "/tmp/socket:[%d]" % fd,
                          "/home/u/pipe:[%d]" % fd, "/tmp/anon_inode:x%d" % fd])
        earlier = sorted(p_ for p_, n_ in files.items()
                         if n_.get("t") == "f" and n_.get("data") == "x" and
                         not n_.get("stat_err") and p_.startswith(
                             ("/tmp/f", "/var/log/x ", "/data/a:b")))
        shared = bool(earlier) and rng.random() < 0.2
        if shared:
            # one file open through several descriptors, each with its own
            # offset and flags
            path = pick(rng, earlier)
        else:
            files[path] = {"t": "f", "data": "x"}
        if not shared and path.endswith(" (deleted)") and \
                rng.random() < 0.5:
            # a sibling without the suffix exists too
            files[path[:-10]] = {"t": "f", "data": "sibling"}
        d["target"] = path
        if rng.random() < 0.15:
            d["locks"] = [pick(rng, [
                "1: FLOCK  ADVISORY  WRITE 359 00:13:11691 0 EOF",
                "1: POSIX  ADVISORY  READ 359 08:01:52 100 200",
                "1: OFDLCK ADVISORY  WRITE -1 08:01:52 0 EOF"])]
            if rng.random() < 0.3:
                d["locks"].append("2: POSIX  ADVISORY  WRITE 359 08:01:52 "
                                  "300 400")
    elif kind == "deleted":
        path = "/tmp/del%d" % fd
        d["target"] = path
        r = rng.random()
        if r < 0.3:
            files[path + " (deleted)"] = {"t": "f", "data": "y"}
        elif r < 0.6:
            files[path] = {"t": "f", "data": "y"}
    elif kind == "unstatable":
        # the target cannot be stat()ed for a reason other than ENOENT /
        # EACCES (a path component replaced by a file, a symlink loop, a
        # stale NFS handle): the descriptor is simply left out
        path = "/tmp/gone%d/f" % fd
        files[path] = {"t": "f", "data": "x",
                       "stat_err": pick(rng, [20, 40, 116, 5])}
        d["kind"] = "raw"
        d["target"] = path + pick(rng, ["", " (deleted)"])
        if d["target"].endswith(" (deleted)"):
            files[d["target"]] = dict(files[path])
    elif kind == "badlink":
        d["kind"] = "raw"
        d["target"] = "/tmp/unresolvable%d" % fd
        d["readlink_err"] = pick(rng, [36, 22])
    elif kind == "dir":
        d["target"] = "/tmp"
        files.setdefault("/tmp/.keep", {"t": "f", "data": ""})
    elif kind == "chr":
        d["target"] = "/dev/null"
        files["/dev/null"] = {"t": "c", "rdev": 259}
    elif kind == "anon":
        d["target"] = pick(rng, ["[eventpoll]", "[eventfd]", "inotify"])
    elif kind == "rel":
        d["kind"] = "raw"
        d["target"] = pick(rng, ["relative/path", "memfd:x", "x"])
    return d


def gen_maps(rng, n):
    out = []
    base = 0x400000
    for i in range(n):
        size = rng.randrange(1, 500) * 4
        path = pick(rng, ["", "/usr/lib/libc.so.6", "/usr/lib/libc.so.6",
                          "[heap]", "[stack]", "/tmp/m (deleted)",
                          "/opt/a b/lib.so"])
        f = {"Size": size, "Rss": rng.randrange(0, size + 1),
             "Pss": rng.randrange(0, size + 1),
             "Shared_Clean": rng.randrange(0, 50),
             "Shared_Dirty": rng.randrange(0, 50),
             "Private_Clean": rng.randrange(0, 50),
             "Private_Dirty": rng.randrange(0, 50),
             "Referenced": rng.randrange(0, 50),
             "Anonymous": rng.randrange(0, 50),
             "Swap": rng.randrange(0, 50),
             "Private_Hugetlb": rng.randrange(0, 3)}
        out.append({"addr": "%08x-%08x" % (base, base + size * 1024),
                    "perms": pick(rng, ["r-xp", "rw-p", "r--p", "rw-s"]),
                    "path": path, "inode": 0 if not path else 1234 + i,
                    "fields": f})
        base += size * 1024 + 0x1000
    return out


def gen_proc(rng, pid, ppid, files, rich=False, start=None):
    comm = pick(rng, COMMS)
    p = {"pid": pid, "ppid": ppid, "comm": comm,
         "state": pick(rng, STATES),
         "utime": rng.randrange(0, 5000), "stime": rng.randrange(0, 5000),
         "cutime": rng.randrange(0, 100), "cstime": rng.randrange(0, 100),
         "blkio": rng.randrange(0, 100),
         "tty_nr": pick(rng, [0, 0, 1025, 34816, 34817, 99999]),
         "cpu": rng.randrange(0, 4),
         "uids": pick(rng, [(0, 0, 0), (1000, 1000, 1000), (1000, 0, 0),
                            (4242, 4242, 4242)]),
         "gids": pick(rng, [(0, 0, 0), (1000, 1000, 1000), (5, 6, 7)]),
         "nice": rng.randrange(-20, 20),
         "ioprio": pick(rng, [(0, 4), (1, 0), (2, 7), (3, 0), (2, 0)]),
         "ctxsw": (rng.randrange(0, 10 ** 6), rng.randrange(0, 10 ** 6)),
         "statm": [rng.randrange(0, 10 ** 6) for _ in range(7)],
         }
    if start is not None:
        p["starttime"] = start
    if comm and len(comm) >= 15:
        p["cmdline"] = pick(rng, [
            "/usr/bin/" + comm + "-extended\x00--flag\x00", comm + "\x00",
            "", "other\x00"])
    else:
        p["cmdline"] = pick(rng, [
            "/bin/%s\x00" % (comm or "x"), "a b c", "/bin/x\x00\x00-v\x00",
            "", "prog with spaces\x00"])
    p["environ"] = pick(rng, ["A=1\x00B=2\x00", "", "A=1\x00A=2\x00\x00X=9\x00",
                              "NOEQ\x00K=v=w\x00"])
    p["exe"] = pick(rng, ["/bin/x", "/usr/bin/y (deleted)", "/bin/x\x00junk",
                          None])
    p["cwd"] = pick(rng, ["/", "/tmp", "/gone (deleted)"])
    if rich:
        nthreads = rng.randrange(1, 5)
        th = {str(pid): [comm, p["utime"], p["stime"]]}
        for i in range(1, nthreads):
            th[str(pid * 100 + i)] = [pick(rng, COMMS), rng.randrange(0, 99),
                                      rng.randrange(0, 99)]
        p["threads"] = th
        fds = {}
        for fd in range(rng.randrange(0, 9)):
            fds[str(fd)] = gen_fd(rng, fd, files)
        p["fds"] = fds
        p["maps"] = gen_maps(rng, rng.randrange(0, 4))
        p["rlimits"] = {"7": (rng.randrange(1, 1024), 4096)}
        p["affinity"] = [0]
    return p
