"""SimKernel -- the executable model of the Linux side that psutil talks to.

Everything psutil can observe (procfs, sysfs, /dev names, per-pid syscalls,
clocks) is rendered from plain Python state at *access time*.  Every seam call
is a numbered access at which the plan can fire kernel events or inject a
fault.  Nothing here draws random numbers or reads a real clock.

See DESIGN.md section 3.3.
"""

import errno
import fnmatch
import hashlib
import io
import os as _os
import stat as _stat

CLK_TCK = 100
PAGE = 4096

SELF_PID_DEFAULT = 1000

PROCFS_KINDS = ("open", "read", "stat", "lstat", "readlink", "listdir",
                "access")


def oserr(eno, path=None):
    if path is None:
        return OSError(eno, _os.strerror(eno))
    return OSError(eno, _os.strerror(eno), path)


class SimStat:
    __slots__ = ("st_mode", "st_ino", "st_dev", "st_nlink", "st_uid",
                 "st_gid", "st_size", "st_rdev", "st_atime", "st_mtime",
                 "st_ctime")

    def __init__(self, mode, ino=1, dev=5, rdev=0, size=0, uid=0, gid=0):
        self.st_mode = mode
        self.st_ino = ino
        self.st_dev = dev
        self.st_nlink = 1
        self.st_uid = uid
        self.st_gid = gid
        self.st_size = size
        self.st_rdev = rdev
        self.st_atime = self.st_mtime = self.st_ctime = 0.0


class SimStatvfs:
    def __init__(self, d):
        self.f_bsize = d.get("bsize", 4096)
        self.f_frsize = d.get("frsize", 4096)
        self.f_blocks = d.get("blocks", 1000)
        self.f_bfree = d.get("bfree", 500)
        self.f_bavail = d.get("bavail", 400)
        self.f_files = d.get("files", 100)
        self.f_ffree = d.get("ffree", 50)
        self.f_favail = d.get("favail", 50)
        self.f_flag = 0
        self.f_namemax = 255


class SimProc:
    """One process incarnation."""

    FIELDS = ("pid", "inc", "ppid", "comm", "state", "starttime", "utime",
              "stime", "cutime", "cstime", "blkio", "tty_nr", "cpu", "uids",
              "gids", "threads", "fds", "cmdline", "environ", "exe", "cwd",
              "maps", "statm", "io", "nice", "ioprio", "affinity", "rlimits",
              "is_child", "exit_status", "zombie", "ctxsw", "pgrp", "session",
              "vsize", "rss", "fdseq", "kthread", "rollup_fail")

    def __init__(self, pid, inc, **kw):
        self.pid = pid
        self.inc = inc
        self.ppid = kw.get("ppid", 1)
        comm = kw.get("comm", b"proc")
        if isinstance(comm, str):
            comm = comm.encode("latin-1")
        self.comm = comm[:15]
        self.state = kw.get("state", "S")
        self.starttime = kw.get("starttime", 0)
        self.utime = kw.get("utime", 0)
        self.stime = kw.get("stime", 0)
        self.cutime = kw.get("cutime", 0)
        self.cstime = kw.get("cstime", 0)
        self.blkio = kw.get("blkio", 0)
        self.tty_nr = kw.get("tty_nr", 0)
        self.cpu = kw.get("cpu", 0)
        self.uids = tuple(kw.get("uids", (0, 0, 0)))
        self.gids = tuple(kw.get("gids", (0, 0, 0)))
        # tid -> [comm bytes, utime, stime]
        th = kw.get("threads")
        if th is None:
            th = {pid: [self.comm, self.utime, self.stime]}
        self.threads = {}
        for tid, v in th.items():
            c = v[0]
            if isinstance(c, str):
                c = c.encode("latin-1")
            self.threads[int(tid)] = [c, v[1], v[2]]
        if pid not in self.threads:
            self.threads[pid] = [self.comm, self.utime, self.stime]
        # fd -> dict(kind, target, pos, flags, ino)
        self.fds = {}
        for fd, v in (kw.get("fds") or {}).items():
            self.fds[int(fd)] = dict(v)
        cmd = kw.get("cmdline", b"/bin/proc\x00")
        if isinstance(cmd, str):
            cmd = cmd.encode("latin-1")
        self.cmdline = cmd
        env = kw.get("environ", b"A=1\x00")
        if isinstance(env, str):
            env = env.encode("latin-1")
        self.environ = env
        self.exe = kw.get("exe", "/bin/proc")
        self.cwd = kw.get("cwd", "/")
        # list of dict(addr, perms, path, fields{name: kB})
        self.maps = kw.get("maps") or []
        self.statm = list(kw.get("statm", (100, 50, 10, 5, 0, 20, 0)))
        self.io = dict(kw.get("io") or dict(
            rchar=1, wchar=2, syscr=3, syscw=4, read_bytes=5, write_bytes=6,
            cancelled_write_bytes=7))
        self.nice = kw.get("nice", 0)
        self.ioprio = tuple(kw.get("ioprio", (0, 4)))
        self.affinity = list(kw.get("affinity", [0]))
        self.rlimits = {int(k): tuple(v)
                        for k, v in (kw.get("rlimits") or {}).items()}
        self.is_child = kw.get("is_child", False)
        self.exit_status = kw.get("exit_status")  # raw wait status
        self.zombie = kw.get("zombie", False)
        self.ctxsw = tuple(kw.get("ctxsw", (11, 22)))
        self.pgrp = kw.get("pgrp", pid)
        self.session = kw.get("session", pid)
        self.vsize = kw.get("vsize", 4096 * 100)
        self.rss = kw.get("rss", 50)
        self.kthread = kw.get("kthread", False)
        self.rollup_fail = kw.get("rollup_fail", False)
        # half released (issue 2418): /proc/<pid> still resolves, every file
        # below it is ENOENT
        self.releasing = kw.get("releasing", False)
        if self.zombie:
            self.state = "Z"


STATE_NAMES = {"R": "running", "S": "sleeping", "D": "disk sleep",
               "T": "stopped", "t": "tracing stop", "Z": "zombie",
               "X": "dead", "I": "idle", "P": "parked", "K": "wakekill",
               "W": "waking", "x": "dead"}


class Ctx:
    """Per (simulated) thread execution context."""
    __slots__ = ("thread", "op", "acc", "inop", "pacc", "kc")

    def __init__(self, thread=0):
        self.thread = thread
        self.op = -1
        self.acc = 0
        self.pacc = 0
        self.kc = {}
        self.inop = False


class StepLimit(BaseException):
    """Raised when a run exceeds its seam-call budget (endless loop)."""


class SimKernel:
    def __init__(self, cfg=None):
        cfg = dict(cfg or {})
        self.cfg = cfg
        self.version = 0
        self.next_inc = 1
        self.self_pid = cfg.get("self_pid", SELF_PID_DEFAULT)
        self.self_ppid = cfg.get("self_ppid", 1)
        self.root = cfg.get("root", True)
        self.caller_uid = 0 if self.root else cfg.get("caller_uid", 1000)
        self.keep_snaps = False
        self.snaps = []
        self.oracle_mode = False
        self.static_procfs = cfg.get("procfs_flavor") == "static"
        self.deny = {}      # exact path -> errno (persistent refusals)
        self.pins = {}
        self.watch = ()
        self.proc_hist = []
        # clocks
        self.mono = float(cfg.get("mono0", 50000.0))
        self.wall_offset = float(cfg.get("wall_offset", 1700000000.25))
        self.sleep_jitter = cfg.get("sleep_jitter", 0.0)
        self.clock_cost = cfg.get("clock_cost", 0.0)
        # tables
        self.procs = {}
        self.last_start = {}
        self.ncpu_fields = cfg.get("cpu_fields", 10)
        # per-cpu tick rows: list of [10 ints]; cpu ids may have holes
        self.cpu_ids = list(cfg.get("cpu_ids", [0, 1]))
        self.cpu = {c: [100 * (c + 1), 5, 50, 10000, 20, 3, 4, 1, 7, 2]
                    for c in self.cpu_ids}
        for c, row in (cfg.get("cpu_ticks") or {}).items():
            self.cpu[int(c)] = list(row)
        # time accumulated by possible-but-offline CPUs: part of the first
        # ("cpu") line of /proc/stat, which is summed over possible CPUs,
        # but of no cpuN line
        self.cpu_offline = list(cfg.get("cpu_offline") or [0] * 10)
        self.stat_misc = dict(intr=12345, ctxt=67890, softirq=4242,
                              processes=999)
        self.stat_misc.update(cfg.get("stat_misc") or {})
        self.meminfo = dict(cfg.get("meminfo") or {
            "MemTotal": 8000000, "MemFree": 2000000, "MemAvailable": 5000000,
            "Buffers": 100000, "Cached": 1500000, "SwapCached": 0,
            "Active": 3000000, "Inactive": 1000000,
            "Active(file)": 800000, "Inactive(file)": 600000,
            "SwapTotal": 1000000, "SwapFree": 900000, "Shmem": 50000,
            "Slab": 200000, "SReclaimable": 120000})
        self.vmstat = dict(cfg.get("vmstat") or {"pswpin": 10, "pswpout": 20})
        # name -> list of 16 ints (kernel column order)
        self.net = {}
        for name, row in (cfg.get("net") or {"lo": [0] * 16}).items():
            self.net[name] = list(row)
        # list of dict(major, minor, name, fields=[...])
        self.disks = [dict(d) for d in (cfg.get("disks") or [])]
        self.sys_block = set(cfg.get("sys_block") or
                             [d["name"] for d in self.disks
                              if d.get("whole", True)])
        self.ncpu_online = cfg.get("ncpu_online", len(self.cpu_ids))
        self.sysconf_fail = set(cfg.get("sysconf_fail") or ())
        self.listdir_order = cfg.get("listdir_order", "sorted")
        self.has_rollup = cfg.get("has_rollup", True)
        self.has_smaps = cfg.get("has_smaps", True)
        self.has_io = cfg.get("has_io", True)
        self.stat_short = cfg.get("stat_short", False)  # old-kernel layout
        self.passwd = dict(cfg.get("passwd") or {0: "root", 1000: "user"})
        # static VFS: path -> node
        self.files = {}
        self._dirs = None
        for path, node in (cfg.get("files") or {}).items():
            self.add_file(path, node)
        self._add_default_dev()
        # effects & logs
        self.effects = []
        self.acclog = []
        self.acclog_on = True
        self.trace = []
        self.trace_max = cfg.get("trace_max", 4000)
        self.nacc = 0
        self.max_acc = cfg.get("max_acc", 200000)
        self.digest = hashlib.sha256()
        self.ctxs = {0: Ctx(0)}
        self.cur_thread = 0
        self.pending = {}   # (thread, op, k) -> [events]
        self.pending_p = {}  # (thread, op, n-th procfs access) -> [events]
        self.fault_kind = {}  # (thread, op, kind, n-th of that kind) -> fault
        self.faults = {}    # (thread, op, k) -> fault dict
        self.timed = []     # sorted list of (t, seq, ev)
        self._tseq = 0
        self.sched = None
        self.stats = {}
        self.sleeps = []    # (t_start, dt)
        self.clock_reads = 0
        self.slept = 0.0
        self.fault_filter = None
        self.statreads = []
        self.net_hist = [{n: list(r) for n, r in self.net.items()}]
        self.procstat_reads = []
        self.tabreads = []
        # boot processes
        self.spawn(pid=1, ppid=0, comm=b"init", starttime=2, _boot=True)
        self.spawn(pid=self.self_pid, ppid=self.self_ppid, comm=b"python3",
                   _boot=True, starttime=cfg.get("self_start", 300000),
                   cmdline=b"python3\x00-m\x00x\x00",
                   affinity=list(self.cpu_ids))
        for p in cfg.get("procs") or []:
            self.spawn(_boot=True, **p)

    # ------------------------------------------------------------------
    # bookkeeping

    def bump(self):
        self.version += 1
        if self.watch:
            import copy
            self.proc_hist.append((self.version, {
                pid: copy.deepcopy(self.procs[pid]) for pid in self.watch
                if pid in self.procs}))
        if self.keep_snaps:
            self.snaps.append((self.version, self.snapshot()))

    def proc_at(self, pid, version):
        best = None
        for v, d in self.proc_hist:
            if v <= version:
                best = d.get(pid)
            else:
                break
        return best

    def view(self, procs_override=None, pins=None):
        """Quiet clone for oracle evaluation (no logging, no events)."""
        import copy
        ek = copy.copy(self)
        ek.procs = dict(self.procs)
        for pid, p in (procs_override or {}).items():
            if p is None:
                ek.procs.pop(pid, None)
            else:
                ek.procs[pid] = p
        ek.pins = dict(pins or {})
        ek.oracle_mode = True
        ek.sched = None
        ek.acclog_on = False
        ek.digest = hashlib.sha256()
        ek.ctxs = {0: Ctx(0)}
        ek.cur_thread = 0
        ek.pending, ek.pending_p, ek.faults, ek.fault_kind = {}, {}, {}, {}
        ek.timed = []
        ek.trace = []
        ek.trace_max = 0
        ek.effects = []
        ek.statreads, ek.procstat_reads, ek.tabreads = [], [], []
        ek.watch = ()
        ek.keep_snaps = False
        ek.stats = {}
        return ek

    def snapshot(self):
        """Light copy of the process table for the oracles."""
        return {pid: (p.inc, p.zombie, frozenset(p.threads),
                      frozenset(p.fds), p.ppid, p.starttime)
                for pid, p in self.procs.items() if not p.releasing}

    def stat_inc(self, name, n=1):
        self.stats[name] = self.stats.get(name, 0) + n

    def ctx(self):
        return self.ctxs[self.cur_thread]

    def begin_op(self, op_index, thread=None):
        c = self.ctxs[self.cur_thread if thread is None else thread]
        c.op = op_index
        c.acc = 0
        c.pacc = 0
        c.kc = {}
        c.inop = True

    def end_op(self, thread=None):
        c = self.ctxs[self.cur_thread if thread is None else thread]
        c.inop = False

    def schedule_at_access(self, thread, op, k, ev):
        self.pending.setdefault((thread, op, k), []).append(ev)

    def schedule_at_procfs(self, thread, op, n, ev):
        """Fire ev just before the n-th pid-related procfs access of op."""
        self.pending_p.setdefault((thread, op, n), []).append(ev)

    def snap_at(self, version):
        best = None
        for v, s in self.snaps:
            if v <= version:
                best = s
            else:
                break
        return best

    def schedule_fault(self, thread, op, k, fault):
        self.faults[(thread, op, k)] = fault

    def schedule_at_time(self, t, ev):
        self._tseq += 1
        self.timed.append((float(t), self._tseq, ev))
        self.timed.sort(key=lambda x: (x[0], x[1]))

    def _acc(self, kind, arg, pid=None, pidrel=False):
        """Numbered access: fire events, yield, log, inject."""
        if self.oracle_mode:
            return
        if self.sched is not None:
            self.sched.yield_point("acc", "acc:" + kind)
        c = self.ctxs[self.cur_thread]
        k = c.acc
        c.acc += 1
        self.nacc += 1
        if self.nacc > self.max_acc:
            raise StepLimit("seam call budget exceeded")
        key = (c.thread, c.op, k)
        if c.inop:
            evs = self.pending.pop(key, None)
            if evs:
                for ev in evs:
                    self.apply_event(ev, inside=True)
            if pidrel and kind in PROCFS_KINDS:
                n = c.pacc
                c.pacc += 1
                if self.pending_p:
                    evs = self.pending_p.pop((c.thread, c.op, n), None)
                    if evs:
                        for ev in evs:
                            self.apply_event(ev, inside=True)
        inc = None
        if pid is not None:
            p = self.procs.get(pid)
            if p is not None:
                inc = p.inc
        self.digest.update(
            repr((c.thread, kind, arg, round(self.mono, 6))).encode())
        if self.acclog_on:
            self.acclog.append((c.thread, c.op, k, kind, arg, pid, inc,
                                self.version, pidrel, self.mono))
        if len(self.trace) < self.trace_max:
            self.trace.append([c.thread, c.op, k, kind, str(arg)])
        if c.inop:
            f = self.faults.get(key)
            if self.fault_kind:
                n = c.kc.get(kind, 0)
                c.kc[kind] = n + 1
                f = self.fault_kind.get((c.thread, c.op, kind, n), f)
            if f is not None:
                self.stat_inc("fault_" + f.get("kind", "err"))
                self.digest.update(b"F")
                if len(self.trace) < self.trace_max:
                    self.trace[-1].append("FAULT:" + f.get("kind", "err"))
                if f.get("errno") is not None:
                    raise oserr(f["errno"], arg if isinstance(arg, str)
                                else None)
                if f.get("exc") == "EINTR":
                    raise InterruptedError(errno.EINTR, "Interrupted")

    def _err(self, eno, path=None):
        self.digest.update(("E%d" % eno).encode())
        if self.trace and len(self.trace) <= self.trace_max:
            self.trace[-1].append(errno.errorcode.get(eno, str(eno)))
        return oserr(eno, path)

    # ------------------------------------------------------------------
    # clocks

    def now_mono(self):
        return self.mono

    def now_wall(self):
        return self.mono + self.wall_offset

    def btime(self):
        return int(self.wall_offset // 1)

    def ticks_now(self):
        return int(round(self.mono * CLK_TCK + 1e-9))

    def time_time(self):
        if self.oracle_mode:
            return self.now_wall()
        self.clock_reads += 1
        if self.sched is not None:
            self.sched.yield_point("clock")
        self.digest.update(b"t")
        return self.now_wall()

    def time_monotonic(self):
        if self.oracle_mode:
            return self.mono
        self.clock_reads += 1
        if self.sched is not None:
            self.sched.yield_point("clock")
        self.digest.update(b"m")
        self.acc_clock()
        now = self.mono
        if self.clock_cost:
            # reading the clock takes time itself: two adjacent readings
            # differ
            self.advance(self.clock_cost)
        return now

    def acc_clock(self):
        if self.acclog_on:
            c = self.ctxs[self.cur_thread]
            self.acclog.append((c.thread, c.op, -1, "clock", None, None, None,
                                self.version, False, self.mono))

    def advance(self, dt):
        """Advance virtual time by dt firing timed events in order."""
        target = self.mono + dt
        while self.timed and self.timed[0][0] <= target + 1e-12:
            t, _, ev = self.timed.pop(0)
            if t > self.mono:
                self.mono = t
            self.apply_event(ev, inside=False)
        if target > self.mono:
            self.mono = target

    def time_sleep(self, dt):
        if dt < 0:
            raise ValueError("sleep length must be non-negative")
        c = self.ctxs[self.cur_thread]
        self.digest.update(repr(("sleep", c.thread, round(dt, 9))).encode())
        self.sleeps.append((self.mono, dt, c.thread, c.op))
        if self.acclog_on:
            self.acclog.append((c.thread, c.op, -1, "sleep", dt, None, None,
                                self.version, False, self.mono))
        if len(self.trace) < self.trace_max:
            self.trace.append([c.thread, c.op, -1, "sleep", repr(dt)])
        extra = 0.0
        if self.sleep_jitter:
            extra = self.sleep_jitter
        if self.sched is not None:
            self.sched.sleep(dt + extra)
        else:
            self.advance(dt + extra)
        self.slept += dt

    # ------------------------------------------------------------------
    # process table

    def spawn(self, pid=None, _boot=False, **kw):
        if pid is None:
            pid = self.alloc_pid()
        old = self.procs.get(pid)
        if old is not None:
            # reuse request for a pid still present: old owner exits and is
            # reaped first
            self.reap(pid, force=True)
        if "starttime" not in kw:
            st = self.ticks_now()
            last = self.last_start.get(pid)
            if last is not None and st <= last:
                # assumption (i): never the same start tick for two owners
                st = last + 1
                need = st / CLK_TCK
                if need > self.mono:
                    self.mono = need
                self.stat_inc("assumption_tick_bump")
            kw["starttime"] = st
        p = SimProc(pid, self.next_inc, **kw)
        self.next_inc += 1
        self.procs[pid] = p
        self.last_start[pid] = max(self.last_start.get(pid, -1), p.starttime)
        self.bump()
        return p

    def alloc_pid(self):
        lo = self.cfg.get("pid_lo", 2)
        hi = self.cfg.get("pid_hi", 60)
        for pid in range(lo, hi + 1):
            if pid not in self.procs and not self.tid_owner(pid):
                return pid
        raise RuntimeError("pid space exhausted")

    def tid_owner(self, tid):
        for p in self.procs.values():
            if tid in p.threads and tid != p.pid:
                return p
        return None

    def exit(self, pid, status=0, reap=None):
        """Process ends -> zombie (until reaped)."""
        p = self.procs.get(pid)
        if p is None or p.zombie:
            return
        p.zombie = True
        p.state = "Z"
        p.exit_status = status
        if self.static_procfs:
            for path in [q for q in self.files
                         if q.startswith("/proc/%d/" % pid)
                         and not q.endswith("/psinfo")]:
                del self.files[path]
            self._dirs = None
        p.exit_time = self.mono
        p.fds = {}
        p.threads = {pid: p.threads.get(pid, [p.comm, 0, 0])}
        # orphans are re-parented to init
        for q in self.procs.values():
            if q.ppid == pid and q.pid != pid:
                q.ppid = 1
        self.bump()
        if reap is None:
            reap = not p.is_child
        if reap:
            self.reap(pid)

    def reap(self, pid, force=False):
        p = self.procs.get(pid)
        if p is None:
            return
        if not p.zombie:
            if not force:
                return
            self.exit(pid, 0, reap=False)
        p.reap_time = self.mono
        del self.procs[pid]
        if self.static_procfs:
            self.del_file("/proc/%d" % pid)
        self.reaped = getattr(self, "reaped", {})
        self.reaped[p.inc] = p
        self.bump()

    def apply_event(self, ev, inside=False):
        kind = ev["ev"]
        self.stat_inc(("ev_in_" if inside else "ev_") + kind)
        self.digest.update(("EV" + kind).encode())
        if len(self.trace) < self.trace_max:
            self.trace.append(["EV", dict(ev)])
        if kind == "spawn":
            kw = {k: v for k, v in ev.items() if k != "ev"}
            self.spawn(**kw)
        elif kind == "exit":
            self.exit(ev["pid"], ev.get("status", 0), ev.get("reap"))
        elif kind == "reap":
            self.reap(ev["pid"])
        elif kind == "vanish":          # exit + reap at once
            self.exit(ev["pid"], ev.get("status", 0), reap=False)
            self.reap(ev["pid"])
        elif kind == "zombify":
            self.exit(ev["pid"], ev.get("status", 0), reap=False)
        elif kind == "halfgone":
            p = self.procs.get(ev["pid"])
            if p is not None:
                p.releasing = True
                self.bump()
        elif kind == "reuse":           # exit+reap old owner, new one starts
            kw = {k: v for k, v in ev.items() if k != "ev"}
            pid = kw["pid"]
            if pid in self.procs:
                self.exit(pid, 0, reap=False)
                self.reap(pid)
            if kw.pop("as_zombie", False):
                p = self.spawn(**kw)
                self.exit(p.pid, 0, reap=False)
            else:
                self.spawn(**kw)
        elif kind == "advance":
            self.advance(ev["dt"])
        elif kind == "clock_step":
            self.wall_offset += ev["delta"]
            self.bump()
        elif kind == "setattr":
            p = self.procs.get(ev["pid"])
            if p is not None:
                for k, v in ev["attrs"].items():
                    if k in ("comm", "cmdline", "environ") and \
                            isinstance(v, str):
                        v = v.encode("latin-1")
                        if k == "comm":
                            v = v[:15]
                            p.threads[p.pid][0] = v
                    if k in ("uids", "gids", "ioprio", "ctxsw"):
                        v = tuple(v)
                    if k == "state" and p.zombie:
                        continue
                    setattr(p, k, v)
                self.bump()
        elif kind == "proc_tick":
            p = self.procs.get(ev["pid"])
            if p is not None and not p.zombie:
                p.utime += ev.get("utime", 0)
                p.stime += ev.get("stime", 0)
                # time of reaped children and block-I/O delay: published in
                # the same record, not CPU the process itself used
                p.cutime += ev.get("cutime", 0)
                p.cstime += ev.get("cstime", 0)
                p.blkio += ev.get("blkio", 0)
                self.bump()
        elif kind == "close_fd":
            p = self.procs.get(ev["pid"])
            if p is not None and ev["fd"] in p.fds:
                del p.fds[ev["fd"]]
                self.bump()
        elif kind == "open_fd":
            p = self.procs.get(ev["pid"])
            if p is not None and not p.zombie:
                p.fds[ev["fd"]] = dict(ev["desc"])
                self.bump()
        elif kind == "thread_start":
            p = self.procs.get(ev["pid"])
            if p is not None and not p.zombie:
                c = ev.get("comm", b"thr")
                if isinstance(c, str):
                    c = c.encode("latin-1")
                p.threads[ev["tid"]] = [c, 0, 0]
                self.bump()
        elif kind == "thread_exit":
            p = self.procs.get(ev["pid"])
            if p is not None and ev["tid"] != p.pid:
                p.threads.pop(ev["tid"], None)
                self.bump()
        elif kind == "cpu_set":
            for c, row in ev["rows"].items():
                self.cpu[int(c)] = list(row)
            self.bump()
        elif kind == "cpu_tick":
            row = self.cpu[ev["cpu"]]
            row[ev["field"]] += ev["n"]
            self.bump()
        elif kind == "cpu_add":
            for c, inc in ev["rows"].items():
                row = self.cpu[int(c)]
                for i, n in enumerate(inc):
                    row[i] += n
            self.bump()
        elif kind == "net_add":
            row = self.net.get(ev["name"])
            if row is not None:
                mod = ev.get("mod")
                for i, n in enumerate(ev["inc"]):
                    row[i] += n
                    if mod:
                        row[i] %= mod      # a 32-bit kernel counter wraps
                self.net_hist.append({n: list(r) for n, r in self.net.items()})
            self.bump()
        elif kind == "net_set":
            tab = ev["table"]
            # (a list of pairs keeps the listing order through JSON)
            self.net = {n: list(r) for n, r in (
                tab.items() if isinstance(tab, dict) else tab)}
            self.bump()
        elif kind == "disk_set":
            self.disks = [dict(d) for d in ev["table"]]
            if "sys_block" in ev:
                self.sys_block = set(ev["sys_block"])
            self.bump()
        elif kind == "file_set":
            self.add_file(ev["path"], ev["node"])
            self.bump()
        elif kind == "file_del":
            self.del_file(ev["path"])
            self.bump()
        elif kind == "ncpu_online":
            # CPU hot-plug / vCPUs added or removed
            self.ncpu_online = ev["n"]
            self.bump()
        elif kind == "fork_self":
            # the program under test fork()s and goes on in the child: same
            # psutil module state, another PID; the old PID is now an
            # ordinary process (the parent)
            from . import seams as _seams
            for fn in list(_seams.State.at_fork_before):
                fn()
            old = self.procs.get(self.self_pid)
            self.spawn(pid=ev["pid"], ppid=self.self_pid,
                       comm=old.comm if old is not None else b"python3")
            self.self_pid = ev["pid"]
            for fn in list(_seams.State.at_fork_child):
                fn()
        elif kind == "hook":
            # something the engine does at this moment on the thread that
            # is running (a signal handler interrupting a sleep)
            fn = getattr(self, "hooks", {}).get(ev["name"])
            if fn is not None:
                fn(ev)
        elif kind == "nop":
            pass
        else:
            raise ValueError("unknown event %r" % (ev,))

    # ------------------------------------------------------------------
    # static VFS

    def add_file(self, path, node):
        if isinstance(node, (bytes, str)):
            node = {"t": "f", "data": node}
        node = dict(node)
        if node.get("t", "f") == "f":
            node["t"] = "f"
            d = node.get("data", b"")
            if isinstance(d, str):
                d = d.encode("latin-1")
            node["data"] = d
        self.files[path] = node
        self._dirs = None

    def del_file(self, path):
        pref = path.rstrip("/") + "/"
        for k in [k for k in self.files if k == path or k.startswith(pref)]:
            del self.files[k]
        self._dirs = None

    def _add_default_dev(self):
        for i, name in enumerate(("/dev/tty1", "/dev/tty2", "/dev/pts/0",
                                  "/dev/pts/1")):
            if name not in self.files:
                rdev = (4 << 8 | (i + 1)) if "tty" in name else \
                    (136 << 8 | (i - 2))
                self.files[name] = {"t": "c", "rdev": rdev}
        self._dirs = None

    def dirs(self):
        if self._dirs is None:
            ds = {"/": set()}
            for path, node in self.files.items():
                parts = path.strip("/").split("/")
                cur = ""
                for i, part in enumerate(parts):
                    parent = cur or "/"
                    ds.setdefault(parent, set()).add(part)
                    cur = cur + "/" + part
                    if i < len(parts) - 1 or node.get("t") == "d":
                        ds.setdefault(cur, set())
            ds["/"].update(("proc", "sys", "dev"))
            ds.setdefault("/sys", set())
            ds.setdefault("/dev", set())
            self._dirs = ds
        return self._dirs

    def _order(self, names):
        names = sorted(names)
        o = self.listdir_order
        if o == "sorted":
            return names
        if o == "reversed":
            return names[::-1]
        # deterministic pseudo-shuffle keyed by the order string
        return sorted(names, key=lambda n: hashlib.md5(
            (o + "\0" + n).encode()).digest())

    # --- /proc path classification

    def _split_proc(self, path):
        """Return (pid:int, rest:list[str]) for /proc/<n>/..., else None."""
        if not path.startswith("/proc/") or self.static_procfs:
            return None
        parts = path[6:].strip("/").split("/")
        if not parts or not parts[0].isdigit():
            if parts and parts[0] == "self":
                return self.self_pid, parts[1:]
            return None
        return int(parts[0]), parts[1:]

    def _sysblock_nodes(self):
        return {"/sys/block/" + n.replace("/", "!") for n in self.sys_block}

    # ------------------------------------------------------------------
    # procfs rendering

    def render_stat(self, p, tid=None):
        comm = p.comm
        utime, stime = p.utime, p.stime
        ident = p.pid
        if tid is not None:
            t = p.threads[tid]
            comm, utime, stime = t[0], t[1], t[2]
            ident = tid
        nthreads = len(p.threads)
        vals = [
            p.state, p.ppid, p.pgrp, p.session, p.tty_nr, -1, 4194304,
            100, 0, 0, 0, utime, stime, p.cutime, p.cstime, 20, p.nice,
            nthreads, 0, p.starttime,
            0 if p.zombie else p.vsize, 0 if p.zombie else p.rss,
            18446744073709551615, 1, 1, 0, 0, 0, 0, 0, 0, 0, 0, 0, 0,
            17, p.cpu, 0, 0, p.blkio, 0, 0, 0, 0, 0, 0, 0, 0, 0,
            (p.exit_status or 0) if p.zombie else 0,
        ]
        if self.stat_short:
            vals = vals[:39]    # kernels lacking delayacct_blkio_ticks etc.
        assert self.stat_short or len(vals) == 50
        return (b"%d (" % ident) + comm + b") " + \
            " ".join(str(v) for v in vals).encode() + b"\n"

    def render_status(self, p, tid=None):
        ident = p.pid if tid is None else tid
        comm = p.comm if tid is None else p.threads[tid][0]
        name = comm.replace(b"\\", b"\\\\").replace(b"\n", b"\\n")
        lines = [
            b"Name:\t" + name,
            b"Umask:\t0022",
            ("State:\t%s (%s)" % (p.state, STATE_NAMES.get(p.state, "?"))
             ).encode(),
            b"Tgid:\t%d" % p.pid,
            b"Ngid:\t0",
            b"Pid:\t%d" % ident,
            b"PPid:\t%d" % p.ppid,
            b"TracerPid:\t0",
            b"Uid:\t%d\t%d\t%d\t%d" % (p.uids + (p.uids[1],)),
            b"Gid:\t%d\t%d\t%d\t%d" % (p.gids + (p.gids[1],)),
            b"FDSize:\t64",
            b"Groups:\t",
        ]
        if not p.zombie and not p.kthread:
            lines += [b"VmPeak:\t%8d kB" % (p.vsize // 1024),
                      b"VmSize:\t%8d kB" % (p.vsize // 1024),
                      b"VmRSS:\t%8d kB" % (p.rss * 4)]
        lines += [
            b"Threads:\t%d" % len(p.threads),
            b"SigQ:\t0/31000",
            b"Cpus_allowed:\tff",
            self._cpus_allowed_list(p),
            b"voluntary_ctxt_switches:\t%d" % p.ctxsw[0],
            b"nonvoluntary_ctxt_switches:\t%d" % p.ctxsw[1],
        ]
        return b"\n".join(lines) + b"\n"

    def _cpus_allowed_list(self, p):
        el = self.eligible_cpus(p)
        # kernel prints ranges; contiguous only when the ids are contiguous
        parts = []
        s = sorted(el)
        i = 0
        while i < len(s):
            j = i
            while j + 1 < len(s) and s[j + 1] == s[j] + 1:
                j += 1
            parts.append("%d" % s[i] if i == j else "%d-%d" % (s[i], s[j]))
            i = j + 1
        return ("Cpus_allowed_list:\t" + ",".join(parts)).encode()

    def eligible_cpus(self, p):
        return list(self.cfg.get("eligible_cpus") or self.cpu_ids)

    def render_statm(self, p):
        if p.zombie:
            return b"0 0 0 0 0 0 0\n"
        return (" ".join(str(x) for x in p.statm) + "\n").encode()

    def render_io(self, p):
        order = ("rchar", "wchar", "syscr", "syscw", "read_bytes",
                 "write_bytes", "cancelled_write_bytes")
        out = []
        for k in order:
            if k in p.io:
                out.append("%s: %d\n" % (k, p.io[k]))
        data = "".join(out).encode()
        extra = self.cfg.get("io_extra")
        if extra:
            data = extra.encode("latin-1") + data
        return data

    SMAPS_FIELDS = ("Size", "KernelPageSize", "MMUPageSize", "Rss", "Pss",
                    "Shared_Clean", "Shared_Dirty", "Private_Clean",
                    "Private_Dirty", "Referenced", "Anonymous", "LazyFree",
                    "AnonHugePages", "ShmemPmdMapped", "FilePmdMapped",
                    "Shared_Hugetlb", "Private_Hugetlb", "Swap", "SwapPss",
                    "Locked")

    def render_smaps(self, p):
        if p.zombie or p.kthread:
            return b""
        out = []
        for m in p.maps:
            path = m.get("path", "")
            hdr = "%s %s %08x %s %d" % (m["addr"], m["perms"],
                                        m.get("offset", 0),
                                        m.get("dev", "00:00"),
                                        m.get("inode", 0))
            if path:
                hdr = hdr.ljust(73) + path
            else:
                hdr = hdr + " "
            out.append(hdr.encode("latin-1") + b"\n")
            f = m.get("fields", {})
            for name in self.SMAPS_FIELDS:
                out.append(("%-16s%8d kB\n" % (name + ":", f.get(name, 0))
                            ).encode())
            out.append(b"THPeligible:    0\n")
            out.append(b"VmFlags: rd ex mr mw me\n")
        return b"".join(out)

    def render_rollup(self, p):
        tot = {}
        frac = 0
        for i, m in enumerate(p.maps):
            for k, v in m.get("fields", {}).items():
                tot[k] = tot.get(k, 0) + v
            # the kernel keeps the proportional share in bytes: each mapping
            # of smaps shows it rounded down to kB, the rollup rounds the sum
            if m.get("fields", {}).get("Pss", 0) < m.get("fields", {}).get(
                    "Size", 0):
                frac += (m.get("inode", 0) * 37 + i * 211 +
                         m["fields"].get("Pss", 0) * 13) % 1024
        if "Pss" in tot:
            tot["Pss"] += frac // 1024
        out = [b"00400000-7ffd00000000 ---p 00000000 00:00 0"
               b"                          [rollup]\n"]
        for name in self.SMAPS_FIELDS:
            if name in ("Size", "KernelPageSize", "MMUPageSize"):
                continue
            out.append(("%-16s%8d kB\n" % (name + ":", tot.get(name, 0))
                        ).encode())
        return b"".join(out)

    def render_fdinfo(self, d):
        out = "pos:\t%d\nflags:\t0%o\nmnt_id:\t%d\nino:\t%d\n" % (
            d.get("pos", 0), d.get("flags", 0), 29, d.get("ino", 7))
        for ln in d.get("locks") or ():
            # advisory locks held through this descriptor (fs/locks.c)
            out += "lock:\t%s\n" % ln
        return out.encode()

    def fd_target(self, d):
        kind = d["kind"]
        if kind in ("file", "dir", "chr", "blk", "rel", "raw"):
            return d["target"]
        if kind == "deleted":
            return d["target"] + " (deleted)"
        if kind == "socket":
            return "socket:[%d]" % d["ino"]
        if kind == "pipe":
            return "pipe:[%d]" % d["ino"]
        if kind == "anon":
            return "anon_inode:" + d["target"]
        return d["target"]

    def render_proc_stat(self):
        nf = self.ncpu_fields
        tot = list(self.cpu_offline)
        for c in self.cpu_ids:
            for i, v in enumerate(self.cpu[c]):
                tot[i] += v
        lines = ["cpu  " + " ".join(str(v) for v in tot[:nf])]
        for c in self.cpu_ids:
            lines.append("cpu%d " % c +
                         " ".join(str(v) for v in self.cpu[c][:nf]))
        lines.append("intr %d 0 0 0" % self.stat_misc["intr"])
        lines.append("ctxt %d" % self.stat_misc["ctxt"])
        if not self.cfg.get("no_btime"):
            lines.append("btime %d" % self.btime())
        lines.append("processes %d" % self.stat_misc["processes"])
        lines.append("procs_running 1")
        lines.append("procs_blocked 0")
        lines.append("softirq %d 0 0 0" % self.stat_misc["softirq"])
        return ("\n".join(lines) + "\n").encode()

    def render_meminfo(self):
        return "".join("%s:%s kB\n" % (k, str(v).rjust(15))
                       for k, v in self.meminfo.items()).encode()

    def render_net_dev(self):
        out = ["Inter-|   Receive                                             "
               "   |  Transmit\n",
               " face |bytes    packets errs drop fifo frame compressed "
               "multicast|bytes    packets errs drop fifo colls carrier "
               "compressed\n"]
        for name, row in self.net.items():
            out.append("%6s: %s\n" % (name, " ".join(str(v) for v in row)))
        return "".join(out).encode()

    def render_diskstats(self):
        out = []
        for d in self.disks:
            out.append("%4d %7d %s %s\n" % (
                d.get("major", 8), d.get("minor", 0), d["name"],
                " ".join(str(v) for v in d["fields"])))
        return "".join(out).encode()

    def system_file(self, path):
        """bytes for dynamic /proc system files, or None."""
        if path == "/proc/stat":
            return self.render_proc_stat()
        if path == "/proc/meminfo":
            return self.render_meminfo()
        if path == "/proc/vmstat":
            return "".join("%s %d\n" % kv for kv in self.vmstat.items()
                           ).encode()
        if path == "/proc/net/dev":
            return self.render_net_dev()
        if path == "/proc/diskstats":
            if self.cfg.get("no_diskstats"):
                return None
            return self.render_diskstats()
        if path == "/proc/uptime":
            return ("%.2f %.2f\n" % (self.mono, self.mono)).encode()
        if path == "/proc/cpuinfo":
            if "cpuinfo" in self.cfg:
                return self.cfg["cpuinfo"].encode("latin-1")
            return "".join(
                "processor\t: %d\ncpu MHz\t\t: 2000.000\nphysical id\t: 0\n"
                "cpu cores\t: %d\n\n" % (c, len(self.cpu_ids))
                for c in self.cpu_ids).encode()
        if path == "/proc/filesystems":
            return b"nodev\tsysfs\nnodev\tproc\n\text4\n\tvfat\n"
        if path in ("/proc/net/tcp", "/proc/net/udp"):
            return (b"  sl  local_address rem_address   st tx_queue rx_queue "
                    b"tr tm->when retrnsmt   uid  timeout inode\n")
        if path in ("/proc/net/tcp6", "/proc/net/udp6"):
            return (b"  sl  local_address                         "
                    b"remote_address                        st tx_queue "
                    b"rx_queue tr tm->when retrnsmt   uid  timeout inode\n")
        if path == "/proc/net/unix":
            return b"Num       RefCount Protocol Flags    Type St Inode Path\n"
        if path == "/proc/zoneinfo":
            return b"Node 0, zone      DMA\n        low      10\n"
        return None

    # ------------------------------------------------------------------
    # lookups used by the seams

    def _proc_for(self, pid):
        """Process owning /proc/<pid>: a listed pid or a thread id."""
        p = self.procs.get(pid)
        if p is not None:
            return p, None
        owner = self.tid_owner(pid)
        if owner is not None:
            return owner, pid
        return None, None

    def _denied(self, p):
        return (not self.root) and p.uids[1] != self.caller_uid

    PROC_FILES = ("stat", "status", "statm", "cmdline", "environ", "io",
                  "smaps", "smaps_rollup", "maps", "limits", "comm")
    PROC_LINKS = ("exe", "cwd", "root")
    PROC_DIRS = ("fd", "fdinfo", "task")
    PROTECTED = ("environ", "io", "smaps", "smaps_rollup", "maps", "exe",
                 "cwd", "root", "fd", "fdinfo")

    def proc_node(self, pid, rest, path):
        """Classify /proc/<pid>/<rest>. Returns a descriptor dict or raises
        OSError with the errno Linux gives."""
        p, tid = self._proc_for(pid)
        if p is None:
            raise self._err(errno.ENOENT, path)
        if not rest:
            return {"t": "d", "p": p, "what": "piddir"}
        if p.releasing:
            raise self._err(errno.ENOENT, path)
        head = rest[0]
        if head in ("smaps", "smaps_rollup") and not self.has_smaps:
            raise self._err(errno.ENOENT, path)
        if head == "smaps_rollup" and not self.has_rollup:
            raise self._err(errno.ENOENT, path)
        if head == "io" and not self.has_io:
            raise self._err(errno.ENOENT, path)
        if len(rest) == 1:
            if head in self.PROC_FILES:
                return {"t": "f", "p": p, "tid": tid, "what": head}
            if head in self.PROC_LINKS:
                return {"t": "l", "p": p, "what": head}
            if head in self.PROC_DIRS:
                return {"t": "d", "p": p, "what": head}
            raise self._err(errno.ENOENT, path)
        if head == "task":
            if not rest[1].isdigit():
                raise self._err(errno.ENOENT, path)
            t = int(rest[1])
            if t not in p.threads:
                raise self._err(errno.ENOENT, path)
            if len(rest) == 2:
                return {"t": "d", "p": p, "what": "taskdir", "tid": t}
            if len(rest) == 3 and rest[2] in ("stat", "status", "comm"):
                return {"t": "f", "p": p, "tid": t, "what": rest[2]}
            raise self._err(errno.ENOENT, path)
        if head in ("fd", "fdinfo") and len(rest) == 2:
            if self._denied(p):
                raise self._err(errno.EACCES, path)
            if not rest[1].isdigit() or int(rest[1]) not in p.fds:
                raise self._err(errno.ENOENT, path)
            fd = int(rest[1])
            if head == "fd":
                return {"t": "l", "p": p, "what": "fdlink", "fd": fd}
            return {"t": "f", "p": p, "what": "fdinfo", "fd": fd}
        raise self._err(errno.ENOENT, path)

    def proc_file_bytes(self, node, path):
        """Content at read time (process may have changed since open)."""
        p = node["p"]
        what = node["what"]
        if self.pins:
            pinned = self.pins.get((p.pid, what))
            if pinned is not None:
                p = pinned
                node = dict(node, p=pinned)
                return self._render_what(node, path, pinned, what)
        live = self.procs.get(p.pid)
        gone = live is None or live.inc != p.inc or live.releasing
        if gone:
            # thread-id paths: owner gone as well
            if what == "environ":
                return b""
            raise self._err(errno.ESRCH, path)
        return self._render_what(node, path, p, what)

    def _render_what(self, node, path, p, what):
        tid = node.get("tid")
        if tid is not None and tid not in p.threads:
            raise self._err(errno.ESRCH, path)
        if what == "stat":
            if tid is None:
                c = self.ctxs[self.cur_thread]
                self.procstat_reads.append((c.thread, c.op, p.pid,
                                            p.utime + p.stime, self.mono))
            return self.render_stat(p, tid if tid != p.pid or
                                    path.find("/task/") >= 0 else None)
        if what == "status":
            return self.render_status(p, tid)
        if what == "comm":
            return (p.comm if tid is None else p.threads[tid][0]) + b"\n"
        if what == "statm":
            return self.render_statm(p)
        if what == "cmdline":
            return b"" if (p.zombie or p.kthread) else p.cmdline
        if what == "environ":
            return b"" if p.zombie else p.environ
        if what == "io":
            return self.render_io(p)
        if what == "smaps":
            return self.render_smaps(p)
        if what == "smaps_rollup":
            return self.render_rollup(p)
        if what == "maps":
            return b""
        if what == "limits":
            return b"Limit                     Soft Limit           Hard Limit\n"
        if what == "fdinfo":
            d = p.fds.get(node["fd"])
            if d is None:
                raise self._err(errno.ENOENT, path)
            return self.render_fdinfo(d)
        raise AssertionError(what)

    # ------------------------------------------------------------------
    # seam operations (called by sim.seams)

    def k_open(self, path, binary=True, encoding=None, errors=None):
        path = _os.fspath(path)
        if isinstance(path, bytes):
            path = path.decode()
        sp = self._split_proc(path)
        self._acc("open", path, sp[0] if sp else None, bool(sp))
        if self.deny and path in self.deny:
            raise self._err(self.deny[path], path)
        if sp:
            pid, rest = sp
            node = self.proc_node(pid, rest, path)
            if node["t"] != "f":
                raise self._err(errno.EISDIR if node["t"] == "d"
                                else errno.EACCES, path)
            p = node["p"]
            what = node["what"]
            if what in self.PROTECTED and self._denied(p):
                raise self._err(errno.EACCES, path)
            if p.zombie and what in ("environ", "smaps_rollup"):
                raise self._err(errno.ESRCH, path)
            if what == "smaps_rollup" and p.rollup_fail:
                raise self._err(errno.ESRCH, path)
            return SimFile(self, path, binary, encoding, errors, node=node,
                           pid=pid)
        data = self.system_file(path)
        if data is not None:
            return SimFile(self, path, binary, encoding, errors, data=None,
                           sysfile=True)
        n = self.files.get(path)
        if n is None:
            if path in self.dirs() or path in self._sysblock_nodes():
                raise self._err(errno.EISDIR, path)
            raise self._err(errno.ENOENT, path)
        if n["t"] == "l":
            return self.k_open_follow(n["target"], path, binary, encoding,
                                      errors)
        if n["t"] != "f":
            raise self._err(errno.EACCES, path)
        if n.get("open_err"):
            raise self._err(n["open_err"], path)
        return SimFile(self, path, binary, encoding, errors, static=path)

    def k_open_follow(self, target, path, binary, encoding, errors):
        n = self.files.get(target)
        if n is None or n["t"] != "f":
            raise self._err(errno.ENOENT, path)
        if n.get("open_err"):
            raise self._err(n["open_err"], path)
        return SimFile(self, target, binary, encoding, errors, static=target)

    def file_read_bytes(self, f):
        """First read of an open SimFile: a numbered access of its own."""
        self._acc("read", f.path, f.pid, f.pid is not None)
        if f.node is not None:
            return self.proc_file_bytes(f.node, f.path)
        if f.sysfile:
            if f.path == "/proc/stat":
                c = self.ctxs[self.cur_thread]
                self.statreads.append((c.thread, c.op, {
                    cc: list(self.cpu[cc]) for cc in self.cpu_ids},
                    self.mono, self.version))
            elif f.path in ("/proc/net/dev", "/proc/diskstats"):
                c = self.ctxs[self.cur_thread]
                self.tabreads.append((c.thread, c.op, f.path, self.version,
                                      self.nacc, {n: list(r) for n, r in
                                                  self.net.items()}))
            data = self.system_file(f.path)
            if data is None:
                raise self._err(errno.ENOENT, f.path)
            return data
        n = self.files.get(f.static)
        if n is None:
            raise self._err(errno.ENODEV, f.path)
        if n.get("read_err"):
            raise self._err(n["read_err"], f.path)
        return n["data"]

    def k_listdir(self, path):
        ret_bytes = isinstance(path, bytes)
        spath = path.decode() if ret_bytes else _os.fspath(path)
        spath = spath.rstrip("/") or "/"
        sp = self._split_proc(spath)
        self._acc("listdir", spath, sp[0] if sp else None, bool(sp))
        if self.deny and spath in self.deny:
            raise self._err(self.deny[spath], spath)
        names = self._listdir(spath, sp)
        names = self._order(names)
        if ret_bytes:
            return [n.encode() for n in names]
        return names

    def _listdir(self, spath, sp):
        if spath == "/proc" and not self.static_procfs:
            names = [str(pid) for pid in self.procs]
            names += ["stat", "meminfo", "net", "cpuinfo", "self", "uptime"]
            return names
        if sp:
            pid, rest = sp
            node = self.proc_node(pid, rest, spath)
            if node["t"] != "d":
                raise self._err(errno.ENOTDIR, spath)
            p = node["p"]
            what = node["what"]
            if what in ("fd", "fdinfo"):
                if self._denied(p):
                    raise self._err(errno.EACCES, spath)
                return [str(fd) for fd in p.fds]
            if what == "task":
                return [str(t) for t in p.threads]
            if what == "taskdir":
                return ["stat", "status", "comm"]
            return list(self.PROC_FILES + self.PROC_LINKS + self.PROC_DIRS)
        if spath == "/proc/net":
            return ["dev", "tcp", "tcp6", "udp", "udp6", "unix"]
        if spath == "/sys/block":
            return [n.replace("/", "!") for n in self.sys_block]
        d = self.dirs().get(spath)
        if d is None:
            n = self.files.get(spath)
            if n is not None and n["t"] == "l":
                return self._listdir(n["target"], None)
            if n is not None:
                raise self._err(errno.ENOTDIR, spath)
            raise self._err(errno.ENOENT, spath)
        n = self.files.get(spath)
        if n is not None and n.get("list_err"):
            raise self._err(n["list_err"], spath)
        return list(d)

    def k_stat(self, path, follow=True, kind="stat"):
        path = _os.fspath(path)
        if isinstance(path, bytes):
            path = path.decode()
        if len(path) > 1:
            path = path.rstrip("/") or "/"
        sp = self._split_proc(path)
        self._acc(kind, path, sp[0] if sp else None, bool(sp))
        if not path.startswith("/"):
            # a relative name is looked up in the *caller's* directory
            path = self.cfg.get("caller_cwd", "/").rstrip("/") + "/" + path
        return self._stat(path, sp, follow, 0)

    def _stat(self, path, sp, follow, depth):
        if depth > 8:
            raise self._err(errno.ELOOP, path)
        if sp:
            pid, rest = sp
            node = self.proc_node(pid, rest, path)
            p = node["p"]
            if node["t"] == "d":
                return SimStat(_stat.S_IFDIR | 0o555, ino=p.inc)
            if node["t"] == "f":
                return SimStat(_stat.S_IFREG | 0o444)
            # links
            if not follow:
                return SimStat(_stat.S_IFLNK | 0o777)
            target = self._readlink_node(node, path)
            if not target.startswith("/"):
                # socket:[..] etc: stat through the magic link works on the
                # object itself; report a socket/fifo
                if target.startswith("socket:"):
                    return SimStat(_stat.S_IFSOCK | 0o777)
                if target.startswith("pipe:"):
                    return SimStat(_stat.S_IFIFO | 0o600)
                return SimStat(_stat.S_IFREG | 0o600)
            return self._stat(target, self._split_proc(target), True,
                              depth + 1)
        if path in ("/", "/proc", "/sys", "/dev", "/proc/net", "/sys/block"):
            return SimStat(_stat.S_IFDIR | 0o555, dev=self.cfg.get(
                "root_dev", 2049) if path == "/" else 5)
        if self.system_file(path) is not None:
            return SimStat(_stat.S_IFREG | 0o444)
        n = self.files.get(path)
        if n is None:
            if path in self.dirs() or path in self._sysblock_nodes():
                return SimStat(_stat.S_IFDIR | 0o755)
            raise self._err(errno.ENOENT, path)
        if n.get("stat_err"):
            raise self._err(n["stat_err"], path)
        t = n["t"]
        if t == "f":
            return SimStat(_stat.S_IFREG | n.get("mode", 0o644),
                           size=len(n["data"]))
        if t == "d":
            return SimStat(_stat.S_IFDIR | 0o755)
        if t == "c":
            return SimStat(_stat.S_IFCHR | 0o620, rdev=n.get("rdev", 0))
        if t == "b":
            return SimStat(_stat.S_IFBLK | 0o660, rdev=n.get("rdev", 0))
        if t == "s":
            return SimStat(_stat.S_IFSOCK | 0o777)
        if t == "l":
            if not follow:
                return SimStat(_stat.S_IFLNK | 0o777)
            tgt = n["target"]
            return self._stat(tgt, self._split_proc(tgt), True, depth + 1)
        raise AssertionError(t)

    def _readlink_node(self, node, path):
        p = node["p"]
        what = node["what"]
        if what == "fdlink":
            d = p.fds.get(node["fd"])
            if d is None:
                raise self._err(errno.ENOENT, path)
            if d.get("readlink_err"):
                # a target deeper than PATH_MAX (ENAMETOOLONG, psutil issue
                # 1940) or a link the kernel refuses to resolve (EINVAL)
                raise self._err(d["readlink_err"], path)
            return self.fd_target(d)
        if self._denied(p):
            raise self._err(errno.EACCES, path)
        if p.zombie:
            raise self._err(errno.ENOENT, path)
        if what == "exe":
            if p.kthread or p.exe is None:
                raise self._err(errno.ENOENT, path)
            return p.exe
        if what == "cwd":
            if p.cwd is None:
                raise self._err(errno.ENOENT, path)
            return p.cwd
        return "/"

    def k_readlink(self, path):
        path = _os.fspath(path)
        sp = self._split_proc(path)
        self._acc("readlink", path, sp[0] if sp else None, bool(sp))
        if self.deny and path in self.deny:
            raise self._err(self.deny[path], path)
        if sp:
            pid, rest = sp
            node = self.proc_node(pid, rest, path)
            if node["t"] != "l":
                raise self._err(errno.EINVAL, path)
            return self._readlink_node(node, path)
        n = self.files.get(path)
        if n is None:
            if path in self.dirs():
                raise self._err(errno.EINVAL, path)
            raise self._err(errno.ENOENT, path)
        if n["t"] != "l":
            raise self._err(errno.EINVAL, path)
        return n["target"]

    def k_access(self, path, mode):
        path = _os.fspath(path)
        sp = self._split_proc(path)
        self._acc("access", path, sp[0] if sp else None, bool(sp))
        try:
            st = self._stat(path, sp, True, 0)
        except OSError:
            return False
        if mode & _os.X_OK and not (st.st_mode & 0o111):
            return False
        return True

    def k_statvfs(self, path):
        self._acc("statvfs", path)
        d = (self.cfg.get("statvfs") or {}).get(path)
        if d is None:
            raise self._err(errno.ENOENT, path)
        return SimStatvfs(d)

    def k_sysconf(self, name):
        if name in self.sysconf_fail:
            raise ValueError("unrecognized configuration name")
        if name == "SC_CLK_TCK":
            return CLK_TCK
        if name == "SC_NPROCESSORS_ONLN":
            return self.ncpu_online
        if name == "SC_NPROCESSORS_CONF":
            # configured = online + offline ones
            return self.ncpu_online + int(self.cfg.get("ncpu_offline", 0))
        if name in ("SC_PAGE_SIZE", "SC_PAGESIZE"):
            return PAGE
        raise ValueError("unrecognized configuration name")

    # --- per-pid syscalls

    def _check_pid_t(self, pid):
        if not isinstance(pid, int) or isinstance(pid, bool):
            raise TypeError("an integer is required")
        if pid > 2 ** 31 - 1 or pid < -2 ** 31:
            raise OverflowError("signed integer is greater than maximum")

    def _target(self, pid, allow_tid=True):
        if self.cfg.get("pidns_foreign") and pid != self.self_pid:
            # the procfs in use is that of another PID namespace (the host's
            # /proc seen from a container): kill(2) looks PIDs up in the
            # caller's own namespace, where none of them exists
            return None
        p = self.procs.get(pid)
        if p is not None and p.releasing:
            return None
        if p is None and allow_tid:
            p = self.tid_owner(pid)
        return p

    def _effect(self, kind, pid, p, **kw):
        c = self.ctxs[self.cur_thread]
        rec = dict(kind=kind, pid=pid, inc=(p.inc if p is not None else None),
                   thread=c.thread, op=c.op, t=self.mono, **kw)
        self.effects.append(rec)
        return rec

    def k_kill(self, pid, sig):
        self._check_pid_t(pid)
        sig = int(sig)
        self._acc("kill", (pid, sig), pid if pid > 0 else None, True)
        if pid <= 0:
            # process-group / broadcast semantics: record, then behave
            self._effect("kill", pid, None, sig=sig, group=True)
            return None
        if sig < 0 or sig > 64:
            raise self._err(errno.EINVAL)
        p = self._target(pid)
        if p is None:
            self._effect("kill_miss", pid, None, sig=sig)
            raise self._err(errno.ESRCH)
        if self._denied(p):
            self._effect("kill_denied", pid, p, sig=sig)
            raise self._err(errno.EPERM)
        if p.zombie and sig != 0 and self.cfg.get("kill_zombie_esrch"):
            # OpenBSD as psutil's sources describe it: delivering a signal
            # to a zombie answers ESRCH ("os.kill() lies in case of zombie
            # processes", psutil/__init__.py) while the existence probe
            # kill(pid, 0) still succeeds (_psbsd.pid_exists trusts it)
            self._effect("kill_miss", pid, p, sig=sig)
            raise self._err(errno.ESRCH)
        self._effect("kill", pid, p, sig=sig)
        if sig != 0 and self.cfg.get("signals_act") and not p.zombie:
            if sig == 19:
                p.state = "T"
            elif sig == 18:
                p.state = "S"
            elif sig in (9, 15):
                self.exit(pid, sig)  # wait status: killed by sig
            self.bump()
        return None

    def k_getpriority(self, pid):
        self._check_pid_t(pid)
        self._acc("getpriority", pid, pid, True)
        p = self.procs.get(pid) if pid != 0 else self.procs.get(self.self_pid)
        if p is None:
            raise self._err(errno.ESRCH)
        return p.nice

    def k_setpriority(self, pid, value):
        self._check_pid_t(pid)
        self._acc("setpriority", (pid, value), pid, True)
        p = self.procs.get(pid) if pid != 0 else self.procs.get(self.self_pid)
        if p is None:
            raise self._err(errno.ESRCH)
        if self._denied(p):
            self._effect("set_denied", pid, p)
            raise self._err(errno.EPERM)
        self._effect("setpriority", pid, p, value=value)
        p.nice = max(-20, min(19, int(value)))
        self.bump()

    def k_ioprio_get(self, pid):
        self._check_pid_t(pid)
        self._acc("ioprio_get", pid, pid, True)
        p = self.procs.get(pid) if pid != 0 else self.procs.get(self.self_pid)
        if p is None:
            raise self._err(errno.ESRCH)
        return tuple(p.ioprio)

    def k_ioprio_set(self, pid, ioclass, value):
        self._check_pid_t(pid)
        self._acc("ioprio_set", (pid, int(ioclass), value), pid, True)
        p = self.procs.get(pid) if pid != 0 else self.procs.get(self.self_pid)
        if p is None:
            raise self._err(errno.ESRCH)
        if self._denied(p):
            self._effect("set_denied", pid, p)
            raise self._err(errno.EPERM)
        self._effect("ioprio_set", pid, p, value=(int(ioclass), int(value)))
        p.ioprio = (int(ioclass), int(value))
        self.bump()

    def k_affinity_get(self, pid):
        self._check_pid_t(pid)
        self._acc("affinity_get", pid, pid, True)
        p = self.procs.get(pid) if pid != 0 else self.procs.get(self.self_pid)
        if p is None:
            raise self._err(errno.ESRCH)
        return list(p.affinity)

    def k_affinity_set(self, pid, cpus):
        self._check_pid_t(pid)
        cpus = list(cpus)
        self._acc("affinity_set", (pid, tuple(cpus)), pid, True)
        for c in cpus:
            if not isinstance(c, int):
                raise TypeError("sequence argument expected, got %r" % (c,))
            if c < 0:
                raise ValueError("invalid CPU value")
        p = self.procs.get(pid) if pid != 0 else self.procs.get(self.self_pid)
        if p is None:
            # sched_setaffinity(2) takes a thread id: one of the other
            # threads of some process
            for q in self.procs.values():
                if pid in q.threads and not q.zombie:
                    p = q
                    break
        if p is None:
            raise self._err(errno.ESRCH)
        if self._denied(p):
            self._effect("set_denied", pid, p)
            raise self._err(errno.EPERM)
        el = set(self.eligible_cpus(p))
        eff = [c for c in cpus if c in el]
        if not eff:
            raise self._err(errno.EINVAL)
        self._effect("affinity_set", pid, p, value=tuple(sorted(set(cpus))))
        p.affinity = sorted(set(eff))
        self.bump()

    def k_prlimit(self, pid, res, limits=None):
        self._check_pid_t(pid)
        self._acc("prlimit", (pid, res, limits), pid, True)
        p = self.procs.get(pid) if pid != 0 else self.procs.get(self.self_pid)
        if p is None:
            raise self._err(errno.ESRCH)
        if res < 0 or res > 15:
            raise ValueError("invalid resource specified")
        old = p.rlimits.get(res, (1024, 4096))
        if limits is not None:
            limits = tuple(limits)
            if len(limits) != 2:
                raise ValueError("expected a tuple of 2 integers")
            if self._denied(p):
                self._effect("set_denied", pid, p)
                raise self._err(errno.EPERM)
            if self.cfg.get("no_cap_sys_resource") and \
                    limits[1] > old[1]:
                # raising the hard limit needs CAP_SYS_RESOURCE; lowering
                # it or moving the soft limit below it does not
                self._effect("set_denied", pid, p)
                raise self._err(errno.EPERM)
            self._effect("prlimit", pid, p, value=(res, limits))
            p.rlimits[res] = limits
            self.bump()
        return old

    def k_waitpid(self, pid, flags):
        self._acc("waitpid", (pid, flags), pid, True)
        p = self.procs.get(pid)
        if p is None or not p.is_child:
            raise self._err(errno.ECHILD)
        if p.zombie:
            status = p.exit_status
            self.reap(pid)
            return pid, status
        if flags & _os.WNOHANG:
            return 0, 0
        # blocking: advance virtual time to the child's exit
        guard = 0
        while True:
            q = self.procs.get(pid)
            if q is None:
                raise self._err(errno.ECHILD)
            if q.zombie:
                status = q.exit_status
                self.reap(pid)
                return pid, status
            if not self.timed:
                raise StepLimit("blocking waitpid would never return")
            if self.sched is not None:
                self.sched.block_until_event()
            else:
                t = self.timed[0][0]
                self.advance(max(0.0, t - self.mono))
            guard += 1
            if guard > 10000:
                raise StepLimit("waitpid loop")


class SimFile:
    """File object handed to psutil. Content is rendered at first read."""

    def __init__(self, k, path, binary, encoding, errors, node=None, pid=None,
                 data=None, sysfile=False, static=None):
        self.k = k
        self.path = path
        self.binary = binary
        self.encoding = encoding or "utf-8"
        self.errors = errors or "strict"
        self.node = node
        self.pid = pid
        self.sysfile = sysfile
        self.static = static
        self._io = None
        self.closed = False
        self.name = path

    def _ensure(self):
        if self._io is None:
            data = self.k.file_read_bytes(self)
            if self.binary:
                self._io = io.BytesIO(data)
            else:
                self._io = io.StringIO(
                    data.decode(self.encoding, self.errors), newline=None)
        return self._io

    def read(self, n=-1):
        return self._ensure().read(n)

    def readline(self, *a):
        return self._ensure().readline(*a)

    def readlines(self, *a):
        return self._ensure().readlines(*a)

    def __iter__(self):
        return iter(self._ensure())

    def __next__(self):
        return next(self._ensure())

    # the rest of the buffered-reader surface, so that a harmless
    # refactoring of how psutil reads a file is not mistaken for a defect
    def readinto(self, b):
        if not self.binary:
            raise io.UnsupportedOperation("readinto on a text file")
        return self._ensure().readinto(b)

    readinto1 = readinto

    def read1(self, n=-1):
        return self._ensure().read(n)

    def peek(self, n=0):
        f = self._ensure()
        pos = f.tell()
        data = f.read()
        f.seek(pos)
        return data

    def seek(self, *a):
        return self._ensure().seek(*a)

    def tell(self):
        return self._ensure().tell()

    def readable(self):
        return True

    def writable(self):
        return False

    def seekable(self):
        return True

    def close(self):
        self.closed = True

    def __enter__(self):
        return self

    def __exit__(self, *exc):
        self.close()
        return False

    def fileno(self):
        raise OSError(errno.EBADF, "simulated file has no descriptor")


def vfs_glob(k, pattern):
    """glob.glob over the simulated VFS (component-wise fnmatch)."""
    k._acc("glob", pattern)
    parts = pattern.strip("/").split("/")
    cur = [""]
    for i, part in enumerate(parts):
        nxt = []
        magic = any(ch in part for ch in "*?[")
        for base in cur:
            d = base or "/"
            if magic:
                try:
                    names = k._listdir(d if d != "" else "/",
                                       k._split_proc(d))
                except OSError:
                    continue
                names = k._order(names)
                for n in names:
                    if n.startswith(".") and not part.startswith("."):
                        continue
                    if fnmatch.fnmatchcase(n, part):
                        nxt.append(base + "/" + n)
            else:
                cand = base + "/" + part
                try:
                    k._stat(cand, k._split_proc(cand), True, 0)
                except OSError:
                    continue
                nxt.append(cand)
        cur = nxt
        if not cur:
            break
    return cur
