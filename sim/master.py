"""Master side of a check: build, dispatch batches, shrink + confirm
violations in fresh interpreters, match known findings, write evidence."""

import argparse
import json
import os
import random
import subprocess
import sys
import time
import hashlib

from . import build
from .runner import H, load_engine, sig_str

VERIF = os.path.dirname(os.path.dirname(os.path.abspath(__file__)))
PY = "/venv/bin/python"
DEFAULT_SEED = 20261001

# property -> configuration
PROPS = {
    "C01": dict(engine="ptable", level="exploration",
                quick=dict(batches=48, units=250, wall=75),
                thorough=dict(batches=480, units=500, wall=1500)),
    "C02": dict(engine="ptable", level="exploration",
                quick=dict(batches=40, units=250, wall=75, legs=[
                    dict(engine="threads", batches=16, units=40)]),
                thorough=dict(batches=400, units=500, wall=1500, legs=[
                    dict(engine="threads", batches=160, units=80)])),
    "C04": dict(engine="ptable", level="exploration",
                quick=dict(batches=40, units=250, wall=75, legs=[
                    dict(engine="threads", batches=16, units=40)]),
                thorough=dict(batches=400, units=500, wall=1500, legs=[
                    dict(engine="threads", batches=160, units=80)])),
    "C05": dict(engine="ptable", level="exploration",
                quick=dict(batches=44, units=250, wall=75, legs=[
                    dict(engine="threads", batches=8, units=40)]),
                thorough=dict(batches=440, units=500, wall=1500, legs=[
                    dict(engine="threads", batches=80, units=80)])),
    "C07": dict(engine="counters", level="exploration",
                quick=dict(batches=40, units=250, wall=75, legs=[
                    dict(engine="threads", batches=16, units=40)]),
                thorough=dict(batches=400, units=500, wall=1500, legs=[
                    dict(engine="threads", batches=160, units=80)])),
    "C10": dict(engine="counters", level="exploration",
                quick=dict(batches=40, units=250, wall=75, legs=[
                    dict(engine="threads", batches=16, units=40)]),
                thorough=dict(batches=400, units=500, wall=1500, legs=[
                    dict(engine="threads", batches=160, units=80)])),
    "C14": dict(engine="fdtable", level="exploration",
                quick=dict(batches=44, units=8, wall=75, legs=[
                    dict(engine="threads", batches=8, units=40)]),
                thorough=dict(batches=440, units=16, wall=1500, legs=[
                    dict(engine="threads", batches=80, units=80)])),
    "C15": dict(engine="vtime", level="exploration",
                quick=dict(batches=48, units=300, wall=75),
                thorough=dict(batches=480, units=600, wall=1500)),
    "C20": dict(engine="foreign", level="fault_enumeration",
                quick=dict(batches=10, units=1, wall=85),
                thorough=dict(batches=20, units=1, wall=1500)),
    "C19": dict(engine="sysfs", level="fault_enumeration",
                quick=dict(batches=48, units=6, wall=75),
                thorough=dict(batches=480, units=12, wall=1500)),
    "C16": dict(engine="threads", level="exploration",
                quick=dict(batches=48, units=40, wall=80),
                thorough=dict(batches=480, units=80, wall=1500)),
    "C03": dict(engine="faultpoint", level="fault_enumeration",
                quick=dict(batches=32, units=1, wall=75),
                thorough=dict(batches=320, units=2, wall=1500)),
}


def load_findings():
    path = os.path.join(VERIF, "known_findings.json")
    try:
        return json.load(open(path))["findings"]
    except FileNotFoundError:
        return []


def match_finding(findings, prop, sig):
    clause, tags, api = sig[0], list(sig[1]), sig[2]
    for f in findings:
        if f.get("property") != prop or f.get("status") != "known":
            continue
        s = f["signature"]
        if s.get("clause") != clause:
            continue
        if not set(s.get("tags") or []) <= set(tags):
            continue
        if s.get("api") and api not in s["api"]:
            continue
        if s.get("not_tags") and set(s["not_tags"]) & set(tags):
            continue
        pre = s.get("tags_any_prefix")
        if pre and not any(t.startswith(tuple(pre)) for t in tags):
            continue
        return f
    return None


class Master:
    def __init__(self, prop, tier, seed, jobs, cfg=None):
        self.prop = prop
        self.tier = tier
        self.seed = seed
        self.jobs = jobs
        self.cfg = cfg or PROPS[prop]
        self.engine_name = self.cfg["engine"]
        self.engine = load_engine(self.engine_name)
        self.root = None
        self.tree = None
        self.specdir = None

    def setup(self):
        self.root, self.tree = build.make_scratch()
        self.specdir = os.path.join(self.root, "specs")
        os.makedirs(self.specdir)

    def cleanup(self):
        if self.root:
            build.remove_scratch(self.root)

    def batch_spec(self, b, units, engine_name=None):
        engine_name = engine_name or self.engine_name
        bseed = H(self.seed, self.prop, "batch", engine_name, b)
        rng = random.Random(bseed)
        eng_ = load_engine(engine_name)
        if hasattr(eng_, "boot_config_for"):
            boot = eng_.boot_config_for(b)
        else:
            boot = eng_.boot_config(rng)
        return {
            "mode": "batch", "engine": engine_name,
            "property": self.prop, "tier": self.tier, "scratch": self.tree,
            "boot": boot, "hashseed": str(bseed % 4), "batch": b,
            "units": [H(self.seed, self.prop, "unit", engine_name, b, i)
                      for i in range(units)],
        }

    def run_worker(self, spec, name):
        sp = os.path.join(self.specdir, name + ".json")
        op = os.path.join(self.specdir, name + ".out.json")
        spec = dict(spec, out=op)
        with open(sp, "w") as f:
            json.dump(spec, f)
        env = dict(os.environ)
        env["PYTHONHASHSEED"] = str(spec.get("hashseed", "0"))
        env["TZ"] = "UTC"
        env["LC_ALL"] = "C.UTF-8"
        env.pop("PSUTIL_DEBUG", None)
        return subprocess.Popen(
            [PY, os.path.join(VERIF, "sim", "worker_main.py"), sp],
            env=env, stdout=subprocess.PIPE, stderr=subprocess.STDOUT,
            cwd=VERIF), op

    def wait_worker(self, proc, op, timeout):
        try:
            outtxt, _ = proc.communicate(timeout=timeout)
        except subprocess.TimeoutExpired:
            proc.kill()
            proc.communicate()
            return {"harness_error": "worker wall-clock timeout"}
        if not os.path.exists(op):
            return {"harness_error": "worker produced no output (rc=%s): %s"
                    % (proc.returncode, (outtxt or b"")[-2000:].decode(
                        "utf-8", "replace"))}
        res = json.load(open(op))
        if outtxt and outtxt.strip():
            res.setdefault("worker_stdout", outtxt[-1500:].decode(
                "utf-8", "replace"))
        return res

    def run_batches(self):
        t = self.cfg[self.tier]
        nb, units, wall = t["batches"], t["units"], t["wall"]
        t0 = time.time()
        deadline = t0 + wall
        pending = [(self.engine_name, b, units) for b in range(nb)]
        for leg in t.get("legs") or []:
            extra = [(leg["engine"], b, leg["units"])
                     for b in range(leg["batches"])]
            # interleave so that a wall-clock cut hits every leg evenly
            step = max(1, len(pending) // max(1, len(extra)))
            merged = []
            while pending or extra:
                merged.extend(pending[:step])
                pending = pending[step:]
                if extra:
                    merged.append(extra.pop(0))
            pending = merged
        running = []
        results = []
        truncated = False
        while pending or running:
            while pending and len(running) < self.jobs:
                if time.time() > deadline:
                    truncated = True
                    pending = []
                    break
                ename, b, nunits = pending.pop(0)
                spec = self.batch_spec(b, nunits, ename)
                spec["deadline"] = deadline + 20
                proc, op = self.run_worker(spec, "b-%s-%05d" % (ename, b))
                running.append((b, spec, proc, op, time.time()))
            still = []
            for (b, spec, proc, op, ts) in running:
                if proc.poll() is None:
                    if time.time() > deadline + 90:
                        proc.kill()
                    still.append((b, spec, proc, op, ts))
                    continue
                res = self.wait_worker(proc, op, 5)
                if "harness_error" in res and proc.returncode is not None \
                        and proc.returncode < 0 and \
                        spec.get("_retries", 0) < 2 and \
                        time.time() < deadline:
                    # the worker was killed by a signal from outside (the
                    # simulation itself cannot send real signals): the batch
                    # is a pure function of its spec, run it again
                    spec["_retries"] = spec.get("_retries", 0) + 1
                    proc2, op2 = self.run_worker(
                        spec, "b-%s-%05d-r%d" % (spec["engine"], b,
                                                 spec["_retries"]))
                    still.append((b, spec, proc2, op2, time.time()))
                    continue
                res["batch"] = b
                res["engine"] = spec["engine"]
                res["boot"] = spec["boot"]
                res["hashseed"] = spec["hashseed"]
                results.append(res)
            running = still
            if running:
                time.sleep(0.05)
        results.sort(key=lambda r: (r["engine"], r["batch"]))
        return results, truncated, time.time() - t0

    def shrink_and_confirm(self, v, res):
        """Returns (replay_path | None, info)."""
        base = {"engine": res.get("engine", self.engine_name),
                "property": self.prop,
                "tier": self.tier, "scratch": self.tree, "boot": res["boot"],
                "hashseed": res["hashseed"]}
        spec = dict(base, mode="shrink", plan=v["plan"], sig=v["sig"],
                    budget_s=30.0)
        proc, op = self.run_worker(spec, "shrink-%s" % hashlib.md5(
            sig_str(v["sig"]).encode()).hexdigest()[:8])
        out = self.wait_worker(proc, op, 150)
        if "harness_error" in out:
            return None, "shrink failed: " + out["harness_error"]
        plan = out["plan"]
        r = out.get("result") or {}
        digest = r.get("digest")
        sigs = [sig_str((x["clause"], tuple(sorted(x.get("tags") or ())),
                         x.get("api"))) for x in r.get("violations") or []]
        want = sig_str((v["sig"][0], tuple(v["sig"][1]), v["sig"][2]))
        if want not in sigs:
            return None, "violation did not reproduce when re-executed " \
                "(%s not in %s)" % (want, sigs)
        rid = "%s-%s" % (self.prop, hashlib.sha256(
            json.dumps(plan, sort_keys=True).encode()).hexdigest()[:10])
        os.makedirs(os.path.join(VERIF, "replays"), exist_ok=True)
        path = os.path.join(VERIF, "replays", rid + ".json")
        msg = [x["msg"] for x in r["violations"]
               if sig_str((x["clause"], tuple(sorted(x.get("tags") or ())),
                           x.get("api"))) == want][0]
        with open(path, "w") as f:
            json.dump({"property": self.prop,
                       "engine": res.get("engine", self.engine_name),
                       "boot": res["boot"], "hashseed": res["hashseed"],
                       "signature": v["sig"], "message": msg,
                       "digest": digest, "plan": plan,
                       "shrink": out.get("info")}, f, indent=1)
        # confirmation in a fresh interpreter
        ok, info = self.replay_file(path)
        if not ok:
            return None, "fresh-interpreter replay did not confirm: " + info
        return path, msg

    def replay_file(self, path):
        rp = json.load(open(path))
        spec = {"mode": "replay", "engine": rp["engine"],
                "property": rp["property"], "tier": self.tier,
                "scratch": self.tree, "boot": rp["boot"],
                "hashseed": rp["hashseed"], "plan": rp["plan"]}
        proc, op = self.run_worker(spec, "replay-%d" % (time.time_ns() % 10**9))
        out = self.wait_worker(proc, op, 120)
        if "harness_error" in out:
            return False, "harness error: %s\n%s" % (out["harness_error"],
                                                     out.get("tb", ""))
        r = out["result"]
        sigs = [sig_str((x["clause"], tuple(sorted(x.get("tags") or ())),
                         x.get("api"))) for x in r.get("violations") or []]
        want = sig_str((rp["signature"][0], tuple(rp["signature"][1]),
                        rp["signature"][2]))
        if want not in sigs:
            return False, "signature %s not reproduced (got %s)" % (want, sigs)
        if rp.get("digest") and r.get("digest") != rp["digest"]:
            return False, "trace digest differs: %s vs %s" % (
                r.get("digest"), rp["digest"])
        msgs = [x["msg"] for x in r["violations"]]
        return True, "; ".join(msgs[:3])


def write_evidence(prop, tier, seed, level, cov, wall, nviol, extra):
    os.makedirs(os.path.join(VERIF, "evidence"), exist_ok=True)
    ev = {"property_id": prop, "tier": tier, "seed": seed, "level": level,
          "coverage": cov, "wall_s": round(wall, 2), "violations": nviol}
    ev.update(extra)
    path = os.path.join(VERIF, "evidence", prop + ".json")
    tmp = path + ".tmp"
    with open(tmp, "w") as f:
        json.dump(ev, f, indent=1, sort_keys=True, default=str)
    os.replace(tmp, path)
    return path


def run_check(prop, tier, seed, jobs):
    if prop not in PROPS:
        print("HARNESS-ERROR unknown property %s" % prop)
        return 2
    m = Master(prop, tier, seed, jobs)
    eng = m.engine
    findings = load_findings()
    t0 = time.time()
    try:
        try:
            m.setup()
        except Exception as e:  # noqa: BLE001
            print("HARNESS-ERROR build failed: %s" % e)
            return 2
        results, truncated, wall = m.run_batches()
        herrs = []
        agg = {"evals": 0, "keys": set(), "stats": {}, "sim_time": 0.0,
               "samples": [], "timeouts": 0, "units": 0, "digest_checks": 0}
        viols = {}
        for r in results:
            if "harness_error" in r:
                herrs.append("batch %s: %s %s" % (r.get("batch"),
                                                  r["harness_error"],
                                                  r.get("tb", "")[-3000:]))
                continue
            agg["evals"] += r["evals"]
            agg["keys"].update(r["keys"])
            agg["units"] += r["units"]
            agg["sim_time"] += r.get("sim_time", 0.0)
            agg["timeouts"] += r.get("timeouts", 0)
            agg["digest_checks"] += r.get("digest_checks", 0)
            for k, v in r["stats"].items():
                agg["stats"][k] = agg["stats"].get(k, 0) + v
            if len(agg["samples"]) < 4:
                agg["samples"].extend(r["samples"][:1])
            herrs.extend(r.get("harness_errors") or [])
            for v in r["violations"]:
                s = sig_str(v["sig"])
                if s not in viols:
                    viols[s] = (v, r, v.get("count", 1))
                else:
                    viols[s] = (viols[s][0], viols[s][1],
                                viols[s][2] + v.get("count", 1))
        known_lines, new_viol, confirm_errors = [], [], []
        known_seen = {}
        for s, (v, r, cnt) in sorted(viols.items()):
            f = match_finding(findings, prop, v["sig"])
            if f is not None:
                known_seen.setdefault(f["id"], [f, 0])[1] += cnt
                continue
            new_viol.append((s, v, r, cnt))
        for fid, (f, cnt) in sorted(known_seen.items()):
            known_lines.append("KNOWN-FINDING: property=%s %s [%s; seen %d "
                               "times in this run]" % (prop, f["what"], fid,
                                                       cnt))
        reported = []
        if os.environ.get("VERIF_VERBOSE"):
            for (s, v, r, cnt) in new_viol:
                print("  [sig] %s x%d: %s" % (s, cnt, v["msg"][:300]))
        only = os.environ.get("VERIF_ONLY_SIG")
        if only:
            new_viol = [x for x in new_viol if only in x[0]]
        for (s, v, r, cnt) in new_viol[:6]:
            path, info = m.shrink_and_confirm(v, r)
            if path is None:
                confirm_errors.append("%s: %s" % (s, info))
            else:
                reported.append((s, path, info, cnt))
        wall = time.time() - t0
        level = m.cfg["level"]
        engs = [eng] + [load_engine(l["engine"])
                        for l in m.cfg[tier].get("legs") or []]
        probes = []
        for e_ in engs:
            probes += getattr(e_, "PROBES_BY_PROP", {}).get(
                prop, getattr(e_, "PROBES", []))
        probes_at_zero = [p for p in probes if not agg["stats"].get(p)]
        cov = {
            "evaluations": agg["evals"],
            "distinct_nontrivial": len(agg["keys"]),
            "rule": " || ".join("[%s] %s" % (e_.name, getattr(e_, "RULE", ""))
                                for e_ in engs),
            "samples": agg["samples"] or ["(none)"],
            "exhaustive": False,
            "units": agg["units"],
            "batches": len(results),
            "truncated_by_wall_clock": truncated,
        }
        extra = {
            "assumptions": [a for e_ in engs
                            for a in getattr(e_, "ASSUMPTIONS", [])],
            "runs": agg["evals"],
            "runs_per_hour": int(agg["evals"] / max(wall, 1e-6) * 3600),
            "seeds": {"base": seed, "derivation": "H(base, property, "
                      "'unit', batch, index)", "batches": len(results)},
            "sim_time_s": round(agg["sim_time"], 3),
            "events_fired": {k: v for k, v in sorted(agg["stats"].items())
                             if k.startswith("ev_")},
            "faults_fired": {k: v for k, v in sorted(agg["stats"].items())
                             if k.startswith("fault_")},
            "probes": {k: v for k, v in sorted(agg["stats"].items())
                       if not k.startswith(("ev_", "fault_"))},
            "probes_at_zero": probes_at_zero,
            "components": {
                "real": sorted({x for e_ in engs for x in getattr(
                    e_, "COMPONENTS", {}).get("real", [])}),
                "stub": sorted({x for e_ in engs for x in getattr(
                    e_, "COMPONENTS", {}).get("stub", [])})},
            "runs_per_engine": {e_.name: sum(
                r.get("evals", 0) for r in results
                if r.get("engine") == e_.name) for e_ in engs},
            "known_findings": sorted(known_seen),
            "hashseeds": sorted({r["hashseed"] for r in results}),
            "boot_worlds": len({json.dumps(r["boot"], sort_keys=True)
                                for r in results}),
            "timeouts": agg["timeouts"],
            "determinism_rechecks": agg["digest_checks"],
            "harness_errors": herrs[:10],
        }
        write_evidence(prop, tier, seed, level, cov, wall,
                       len(reported), extra)
        for line in known_lines:
            print(line)
        print("%s tier=%s seed=%d runs=%d distinct=%d wall=%.1fs "
              "known=%d new=%d" % (prop, tier, seed, agg["evals"],
                                   len(agg["keys"]), wall, len(known_seen),
                                   len(reported)))
        if herrs or confirm_errors:
            for h in (herrs + confirm_errors)[:8]:
                print("HARNESS-ERROR %s" % h)
            if not reported:
                return 2
        for (s, path, info, cnt) in reported:
            print("  %s (x%d): %s" % (s, cnt, info))
            print("VIOLATION property=%s replay=%s" % (prop, path))
        if reported:
            return 1
        if agg["evals"] == 0:
            print("HARNESS-ERROR nothing was executed")
            return 2
        return 0
    finally:
        m.cleanup()


def run_replay(prop, path, jobs=1):
    rp = json.load(open(path))
    prop = rp["property"]
    cfg = PROPS[prop]
    m = Master(prop, "quick", 0, 1, cfg)
    try:
        m.setup()
        ok, info = m.replay_file(path)
        if ok:
            print("reproduced: %s" % info)
            print("VIOLATION property=%s replay=%s" % (prop, path))
            return 1
        print("NOT-REPRODUCED: %s" % info)
        return 0
    finally:
        m.cleanup()


def main(argv=None):
    ap = argparse.ArgumentParser(prog="vcheck")
    ap.add_argument("target")
    ap.add_argument("--tier", default=os.environ.get("VERIF_TIER") or "quick")
    ap.add_argument("--seed", type=int, default=None)
    ap.add_argument("--replay")
    ap.add_argument("--jobs", type=int, default=int(
        os.environ.get("VERIF_JOBS") or 16))
    a = ap.parse_args(argv)
    seed = a.seed
    if seed is None:
        try:
            seed = int(os.environ.get("VERIF_SEED") or DEFAULT_SEED)
        except ValueError:
            seed = DEFAULT_SEED
    if a.tier not in ("quick", "thorough"):
        a.tier = "quick"
    if a.replay:
        return run_replay(a.target, a.replay)
    if a.target.startswith("selftest"):
        from . import selftest
        return selftest.main(a.target, seed, a.jobs)
    return run_check(a.target, a.tier, seed, a.jobs)
