"""Worker side: zygote + fork-per-run execution, shrinking, replay.

A worker process is a fresh interpreter with a pinned PYTHONHASHSEED.  It
imports psutil once under the batch's boot world (the zygote) and then forks
one child per simulated run, so that every run starts from exactly the state a
fresh interpreter has after import (DESIGN 4.3).
"""

import hashlib
import json
import os
import random
import select
import signal
import sys
import time
import traceback

from . import seams
from . import kernel as K


def H(*parts):
    """Stable 63-bit hash of the parts (seed derivation)."""
    h = hashlib.sha256(repr(parts).encode()).digest()
    return int.from_bytes(h[:8], "big") >> 1


class Violation(dict):
    """dict(clause=, tags=[...], api=, msg=)"""


def sig_of(v):
    return (v["clause"], tuple(sorted(v.get("tags") or ())), v.get("api"))


def sig_str(sig):
    return "%s|%s|%s" % (sig[0], ",".join(sig[1]), sig[2])


class Worker:
    def __init__(self, spec):
        self.spec = spec
        self.scratch = spec["scratch"]
        self.engine = load_engine(spec["engine"])
        self.prop = spec["property"]
        self.tier = spec.get("tier", "quick")
        self.boot = spec["boot"]
        self.hashseed = spec.get("hashseed", "0")
        self.psutil = None
        self.fork_timeout = spec.get("fork_timeout", 20.0)
        self.digest_all = hashlib.sha256()
        self.ndigests = 0

    # -- zygote
    def import_psutil(self):
        if self.psutil is None:
            bk = self.engine.make_kernel(self.boot, None)
            # files that cannot be read *while psutil is imported* (e.g.
            # /proc/stat: psutil then has no import-time CPU sample)
            bk.deny = dict(self.boot.get("import_deny") or {})
            self.boot_kernel = bk
            self.psutil = self.engine.import_psutil(self.scratch, bk,
                                                    self.boot)
        return self.psutil

    # -- fork-per-run
    def fork(self, fn, timeout=None):
        """Run fn() in a forked child; returns its JSON-able result, or
        {'harness_error': ...} / {'timeout': True}.  A child that was killed
        by a signal from outside (nothing inside a simulated run can send a
        real one: os.kill is a seam) is run again: the run is a pure
        function of its plan."""
        for attempt in range(3):
            r = self._fork_once(fn, timeout)
            if not (isinstance(r, dict) and r.get("killed_by_signal")):
                return r
        return r

    def _fork_once(self, fn, timeout=None):
        timeout = timeout or self.fork_timeout
        r, w = os.pipe()
        sys.stdout.flush()
        sys.stderr.flush()
        pid = os.fork()
        if pid == 0:
            code = 0
            try:
                os.close(r)
                try:
                    res = fn()
                except seams.HarnessError as e:
                    res = {"harness_error": "HarnessError: %s" % e,
                           "tb": traceback.format_exc()[-6000:]}
                except BaseException as e:  # noqa: BLE001
                    if os.environ.get("VERIF_TBFILE"):
                        with open(os.environ["VERIF_TBFILE"], "a") as f_:
                            f_.write(traceback.format_exc() + "\n=====\n")
                    res = {"harness_error": "%s: %s" % (type(e).__name__, e),
                           "tb": traceback.format_exc()[-9000:]}
                data = json.dumps(res, default=_jsonable).encode()
                with os.fdopen(w, "wb") as f:
                    f.write(data)
            except BaseException:  # noqa: BLE001
                code = 3
            finally:
                os._exit(code)
        os.close(w)
        chunks = []
        deadline = time.time() + timeout
        timed_out = False
        while True:
            left = deadline - time.time()
            if left <= 0:
                timed_out = True
                break
            rl, _, _ = select.select([r], [], [], min(left, 1.0))
            if rl:
                b = os.read(r, 1 << 16)
                if not b:
                    break
                chunks.append(b)
        os.close(r)
        if timed_out:
            try:
                os.kill(pid, signal.SIGKILL)
            except ProcessLookupError:
                pass
            os.waitpid(pid, 0)
            return {"timeout": True}
        _, status = os.waitpid(pid, 0)
        data = b"".join(chunks)
        if not data:
            r_ = {"harness_error": "child died, status %r" % (status,)}
            if os.WIFSIGNALED(status) and os.WTERMSIG(status) in (
                    signal.SIGTERM, signal.SIGKILL, signal.SIGINT,
                    signal.SIGHUP):
                r_["killed_by_signal"] = os.WTERMSIG(status)
            return r_
        return json.loads(data)

    def execute_forked(self, plan):
        self.import_psutil()
        r = self.fork(lambda: self.engine.execute(self, plan))
        if isinstance(r, dict):
            self.digest_all.update(str(r.get("digest")).encode())
            self.ndigests += 1
        return r

    # -- batch
    def run_batch(self):
        self.import_psutil()
        spec = self.spec
        out = {"evals": 0, "keys": set(), "stats": {}, "violations": [],
               "sim_time": 0.0, "samples": [], "harness_errors": [],
               "timeouts": 0, "units": 0, "digest_checks": 0}
        t_end = spec.get("deadline")
        for unit_seed in spec["units"]:
            if t_end and time.time() > t_end:
                out["truncated"] = True
                break
            u = self.engine.run_unit(self, unit_seed, self.tier)
            out["units"] += 1
            out["evals"] += u.get("evals", 0)
            out["keys"].update(u.get("keys", ()))
            for k, v in u.get("stats", {}).items():
                out["stats"][k] = out["stats"].get(k, 0) + v
            out["sim_time"] += u.get("sim_time", 0.0)
            out["timeouts"] += u.get("timeouts", 0)
            out["digest_checks"] += u.get("digest_checks", 0)
            for he in u.get("harness_errors", ()):
                if len(out["harness_errors"]) < 5:
                    out["harness_errors"].append(he)
            if len(out["samples"]) < 2 and u.get("sample") is not None:
                out["samples"].append(u["sample"])
            seen = {sig_str(v["sig"]) for v in out["violations"]}
            for v in u.get("violations", ()):
                s = sig_str(v["sig"])
                v["count"] = 1
                if s in seen:
                    for w in out["violations"]:
                        if sig_str(w["sig"]) == s:
                            w["count"] += 1
                    continue
                seen.add(s)
                out["violations"].append(v)
        out["keys"] = sorted(out["keys"])
        out["digest_all"] = self.digest_all.hexdigest()
        out["ndigests"] = self.ndigests
        return out

    # -- replay (fresh interpreter, no fork)
    def replay(self, plan):
        self.import_psutil()
        return self.engine.execute(self, plan)

    # -- shrink
    def shrink(self, plan, sig, budget_s=30.0):
        """Delta-debug the plan keeping the same violation signature."""
        self.import_psutil()
        t_end = time.time() + budget_s
        tests = [0]

        def fails(cand):
            if time.time() > t_end:
                return False
            tests[0] += 1
            res = self.execute_forked(cand)
            if not isinstance(res, dict) or "violations" not in res:
                return False
            return any(sig_of(v) == tuple(sig) or
                       (sig_of(v)[0] == sig[0] and
                        list(sig_of(v)[1]) == list(sig[1]) and
                        sig_of(v)[2] == sig[2])
                       for v in res["violations"])

        sig = (sig[0], tuple(sig[1]), sig[2])
        cur = json.loads(json.dumps(plan))
        if not fails(cur):
            return cur, {"tests": tests[0], "reproduced": False}
        for path in self.engine.SHRINK_LISTS:
            cur = ddmin_list(cur, path, fails)
        for cand in self.engine.simplify(cur):
            if time.time() > t_end:
                break
            if fails(cand):
                cur = cand
        # second pass after simplification
        for path in self.engine.SHRINK_LISTS:
            cur = ddmin_list(cur, path, fails)
        return cur, {"tests": tests[0], "reproduced": True}


def _get(plan, path):
    cur = plan
    for p in path:
        cur = cur[p]
    return cur


def _set(plan, path, val):
    cur = plan
    for p in path[:-1]:
        cur = cur[p]
    cur[path[-1]] = val


def ddmin_list(plan, path, fails):
    """Classic ddmin over one list inside the plan."""
    try:
        items = list(_get(plan, path))
    except (KeyError, IndexError, TypeError):
        return plan
    n = 2
    while len(items) >= 1:
        if len(items) == 1:
            cand = json.loads(json.dumps(plan))
            _set(cand, path, [])
            if fails(cand):
                items = []
            break
        chunk = max(1, len(items) // n)
        reduced = False
        i = 0
        while i < len(items):
            rest = items[:i] + items[i + chunk:]
            cand = json.loads(json.dumps(plan))
            _set(cand, path, rest)
            if fails(cand):
                items = rest
                n = max(n - 1, 2)
                reduced = True
                break
            i += chunk
        if not reduced:
            if chunk == 1:
                break
            n = min(len(items), n * 2)
    out = json.loads(json.dumps(plan))
    _set(out, path, items)
    return out


def _jsonable(o):
    if isinstance(o, (set, frozenset)):
        return sorted(o)
    if isinstance(o, bytes):
        return o.decode("latin-1")
    if isinstance(o, tuple):
        return list(o)
    return repr(o)


ENGINES = {
    "faultpoint": "sim.engines.faultpoint",
    "ptable": "sim.engines.ptable",
    "vtime": "sim.engines.vtime",
    "counters": "sim.engines.counters",
    "threads": "sim.engines.threads",
    "foreign": "sim.engines.foreign",
    "fdtable": "sim.engines.fdtable",
    "sysfs": "sim.engines.sysfs",
}


def load_engine(name):
    import importlib
    mod = importlib.import_module(ENGINES[name])
    return mod.ENGINE


def main(argv):
    spec = json.load(open(argv[1]))
    want = str(spec.get("hashseed", "0"))
    if os.environ.get("PYTHONHASHSEED") != want:
        # pin the hash seed by re-exec (DESIGN 4.2)
        env = dict(os.environ)
        env["PYTHONHASHSEED"] = want
        os.execve(sys.executable, [sys.executable] + argv, env)
    w = Worker(spec)
    mode = spec.get("mode", "batch")
    try:
        if mode == "batch":
            out = w.run_batch()
        elif mode == "replay":
            res = w.replay(spec["plan"])
            out = {"result": res}
        elif mode == "shrink":
            plan, info = w.shrink(spec["plan"], spec["sig"],
                                  spec.get("budget_s", 30.0))
            res = w.execute_forked(plan)
            out = {"plan": plan, "info": info, "result": res}
        else:
            raise ValueError(mode)
    except BaseException as e:  # noqa: BLE001
        out = {"harness_error": "%s: %s" % (type(e).__name__, e),
               "tb": traceback.format_exc()[-4000:]}
    with open(spec["out"], "w") as f:
        json.dump(out, f, default=_jsonable)
    return 0
