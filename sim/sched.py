"""Baton scheduler: real OS threads, exactly one of which runs at any time.

Yield points are (a) every seam call (SimKernel._acc / clock reads), (b)
`line` events of sys.settrace for frames whose code lives in the psutil
package, (c) acquire/release of simulated locks.  At a yield point the plan
may pre-empt the running thread ("when thread t reaches its n-th yield point
hand the baton to thread u"); forced switches (blocked on a lock, sleeping,
finished) go to the lowest-index runnable thread.  One plan = one interleaving.
"""

import sys
import threading

from .kernel import Ctx, StepLimit


class Deadlock(Exception):
    pass


class _Abort(BaseException):
    """Raised inside parked sim threads when the run is torn down."""


class Sched:
    def __init__(self, k, nthreads, preempt, trace_prefix=None,
                 max_yields=400000):
        self.k = k
        self.n = nthreads
        self.sem = [threading.Semaphore(0) for _ in range(nthreads)]
        self.ctl = threading.Semaphore(0)
        self.state = ["runnable"] * nthreads    # runnable|blocked|sleeping|done
        self.wake_at = [None] * nthreads
        self.blocked_on = [None] * nthreads
        self.ycount = [0] * nthreads
        self.pre = {}
        for p in preempt or ():
            self.pre[(p["t"], p["at"])] = p["to"]
        self.trace_prefix = trace_prefix
        self.fingerprint = []       # (from, to, site) voluntary switches
        self.sites = [[] for _ in range(nthreads)]   # per-thread yield sites
        self.record_sites = False
        self.errors = [None] * nthreads
        self.deadlock = False
        self.aborting = False
        self.total_yields = 0
        self.max_yields = max_yields
        self.voluntary = 0
        self.forced = 0
        self.probes = {}
        self.in_sched = False
        for t in range(nthreads):
            if t not in k.ctxs:
                k.ctxs[t] = Ctx(t)

    # ------------------------------------------------------------------
    def _runnable(self, exclude=None):
        return [t for t in range(self.n)
                if self.state[t] == "runnable" and t != exclude]

    def _hand_over(self, frm, to):
        """Give the baton to `to`; park `frm` (unless it is finished)."""
        self.k.cur_thread = to
        self.sem[to].release()
        if frm is not None and self.state[frm] != "done":
            self.sem[frm].acquire()
            if self.aborting:
                raise _Abort()

    def _pick_next(self, frm):
        """Called when `frm` cannot continue (or is finished). Returns the
        thread to run next (possibly frm itself once it is runnable again),
        or None when everything is finished or deadlocked."""
        while True:
            r = [t for t in range(self.n) if self.state[t] == "runnable"]
            others = [t for t in r if t != frm]
            if others:
                return others[0]
            if frm in r:
                return frm
            sleepers = [t for t in range(self.n)
                        if self.state[t] == "sleeping"]
            if sleepers:
                tmin = min(self.wake_at[t] for t in sleepers)
                if tmin > self.k.mono:
                    self.k.advance(tmin - self.k.mono)
                for t in sleepers:
                    if self.wake_at[t] <= self.k.mono + 1e-12:
                        self.state[t] = "runnable"
                continue
            if all(s == "done" for s in self.state):
                return None
            self.deadlock = True
            return None

    # ------------------------------------------------------------------
    # called from simulated threads
    def yield_point(self, why, site=None):
        if self.in_sched or self.aborting:
            return
        t = self.k.cur_thread
        n = self.ycount[t]
        self.ycount[t] = n + 1
        self.total_yields += 1
        if self.total_yields > self.max_yields:
            raise StepLimit("yield budget exceeded")
        if self.record_sites:
            self.sites[t].append(site or why)
        to = self.pre.get((t, n))
        if to is None:
            return
        cands = self._runnable(exclude=t)
        if not cands:
            return
        target = to if to in cands else cands[to % len(cands)]
        self.voluntary += 1
        self.fingerprint.append((t, target, site or why))
        self._hand_over(t, target)

    def sleep(self, dt):
        t = self.k.cur_thread
        self.state[t] = "sleeping"
        self.wake_at[t] = self.k.mono + dt
        self._leave(t)

    def block_on(self, lock):
        t = self.k.cur_thread
        self.state[t] = "blocked"
        self.blocked_on[t] = lock
        self.probes["lock_contended"] = self.probes.get("lock_contended",
                                                        0) + 1
        self._leave(t)

    def lock_released(self, lock):
        for t in range(self.n):
            if self.state[t] == "blocked" and self.blocked_on[t] is lock:
                self.state[t] = "runnable"
                self.blocked_on[t] = None

    def block_until_event(self):
        # blocking waitpid under the scheduler: sleep until the next timed
        # event
        if not self.k.timed:
            raise StepLimit("blocking call would never return")
        self.sleep(max(0.0, self.k.timed[0][0] - self.k.mono))

    def _leave(self, t):
        """Thread t cannot continue now: run someone else until t is
        runnable again and scheduled."""
        self.forced += 1
        nxt = self._pick_next(t)
        if nxt is None:
            # deadlock or everyone else done while t is blocked
            self.aborting = True
            self.ctl.release()
            self.sem[t].acquire()
            raise _Abort()
        if nxt == t:
            self.state[t] = "runnable"
            return
        self._hand_over(t, nxt)

    # ------------------------------------------------------------------
    def _tracer(self, frame, event, arg):
        fn = frame.f_code.co_filename
        if self.trace_prefix and fn.startswith(self.trace_prefix):
            return self._line_tracer
        return None

    def _line_tracer(self, frame, event, arg):
        if event == "line":
            code = frame.f_code
            self.yield_point("line", "%s:%s:%d" % (
                code.co_filename.rsplit("/", 1)[-1], code.co_name,
                frame.f_lineno))
        return self._line_tracer

    def _thread_main(self, t, body):
        self.sem[t].acquire()
        if self.aborting:
            return
        if self.trace_prefix:
            sys.settrace(self._tracer)
        try:
            body(t)
        except _Abort:
            sys.settrace(None)
            return
        except BaseException as e:  # noqa: BLE001
            self.errors[t] = e
        sys.settrace(None)
        self.state[t] = "done"
        nxt = self._pick_next(t)
        if nxt is None:
            self.aborting = self.deadlock
            self.ctl.release()
            return
        self.k.cur_thread = nxt
        self.sem[nxt].release()

    def run(self, bodies):
        """bodies: list of callables body(thread_index). Returns when all
        finished or a deadlock was detected."""
        self.k.sched = self
        threads = []
        for t, body in enumerate(bodies):
            th = threading.Thread(target=self._thread_main, args=(t, body),
                                  daemon=True)
            threads.append(th)
            th.start()
        self.k.cur_thread = 0
        self.sem[0].release()
        self.ctl.acquire()
        self.k.sched = None
        self.k.cur_thread = 0
        if self.aborting:
            # let parked threads unwind
            for t in range(self.n):
                self.sem[t].release()
        for th in threads:
            th.join(timeout=2.0)
        return threads
