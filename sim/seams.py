"""Seams: substitute the modules psutil reaches the outside world through.

Import-window substitution (DESIGN 3.2): while `import psutil` runs,
sys.modules['os'|'time'|'glob'|'threading'|'resource'|'pwd'|'subprocess'] are
proxy modules dispatching to the *current* SimKernel; afterwards sys.modules is
restored so the harness keeps the real modules.  `open` is shadowed as a module
global of psutil._common.  No file in /repo is modified.
"""

import errno
import importlib
import sys
import types

# pre-import everything psutil imports, so that no stdlib module gets
# imported (and binds a proxy) inside the window
import base64, collections, contextlib, datetime, enum, functools  # noqa
import glob as _real_glob, inspect, ipaddress, os as _real_os  # noqa
import posixpath as _real_posixpath, ntpath as _real_ntpath  # noqa
import re, resource as _real_resource, signal as _real_signal  # noqa
import socket, stat, struct, subprocess as _real_subprocess  # noqa
import threading as _real_threading, time as _real_time, warnings  # noqa
import pwd as _real_pwd, shutil, platform, ctypes  # noqa
import xml.etree.ElementTree, textwrap  # noqa

from . import kernel as K


class HarnessError(Exception):
    """Raised when psutil reaches an un-modelled seam (never a verdict)."""


class State:
    """Mutable holder of the current kernel (module-global on purpose)."""
    kernel = None
    unmodelled = []
    at_fork_child = []
    at_fork_before = []


def cur():
    k = State.kernel
    if k is None:
        raise HarnessError("no current kernel")
    return k


def _unmodelled(modname, name):
    def f(*a, **kw):
        State.unmodelled.append("%s.%s" % (modname, name))
        raise HarnessError("unmodelled seam call %s.%s%r" % (modname, name, a))
    f.__name__ = name
    return f


# ---------------------------------------------------------------------------
# os / os.path

OS_PURE = {
    "name", "sep", "altsep", "curdir", "pardir", "pathsep", "linesep",
    "defpath", "extsep", "devnull", "error", "fspath", "fsencode", "fsdecode",
    "strerror", "major", "minor", "makedev", "environ", "getenv", "PathLike",
    "stat_result", "statvfs_result", "terminal_size", "get_exec_path",
    "WIFEXITED", "WEXITSTATUS", "WIFSIGNALED", "WTERMSIG", "WIFSTOPPED",
    "WSTOPSIG", "WIFCONTINUED", "WCOREDUMP", "urandom", "cpu_count",
    "getloadavg", "times", "uname", "getcwd", "putenv", "unsetenv",
    "supports_bytes_environ", "supports_follow_symlinks", "supports_fd",
    "supports_dir_fd", "supports_effective_ids", "get_terminal_size",
    "sched_param", "waitstatus_to_exitcode", "DirEntry", "GenericAlias",
    "Mapping", "MutableMapping", "abc", "sys", "st", "errno",
}


def make_os_path(real_path_mod):
    m = types.ModuleType(real_path_mod.__name__)
    m.__dict__.update(real_path_mod.__dict__)

    def exists(path):
        try:
            cur().k_stat(path)
        except (OSError, ValueError):
            return False
        return True

    def lexists(path):
        try:
            cur().k_stat(path, follow=False, kind="lstat")
        except (OSError, ValueError):
            return False
        return True

    def isfile(path):
        try:
            st = cur().k_stat(path)
        except (OSError, ValueError):
            return False
        return stat.S_ISREG(st.st_mode)

    def isdir(path):
        try:
            st = cur().k_stat(path)
        except (OSError, ValueError):
            return False
        return stat.S_ISDIR(st.st_mode)

    def islink(path):
        try:
            st = cur().k_stat(path, follow=False, kind="lstat")
        except (OSError, ValueError):
            return False
        return stat.S_ISLNK(st.st_mode)

    def realpath(path, **kw):
        k = cur()
        path = _real_os.fspath(path)
        seen = 0
        while seen < 8:
            n = k.files.get(path)
            if n is not None and n["t"] == "l":
                path = n["target"]
                seen += 1
                continue
            break
        return path

    m.exists = exists
    m.lexists = lexists
    m.isfile = isfile
    m.isdir = isdir
    m.islink = islink
    m.realpath = realpath
    for name in ("getsize", "getmtime", "getatime", "getctime", "ismount",
                 "samefile", "sameopenfile", "samestat", "expanduser",
                 "abspath", "relpath"):
        if name in ("abspath", "expanduser"):
            continue
        setattr(m, name, _unmodelled("os.path", name))
    return m


def make_os():
    m = types.ModuleType("os")
    real = _real_os
    for name, val in real.__dict__.items():
        if name.startswith("__"):
            continue
        if name in OS_PURE or name.isupper() or not callable(val):
            m.__dict__[name] = val
        elif name.startswith("_"):
            m.__dict__[name] = val
        else:
            m.__dict__[name] = _unmodelled("os", name)
    m.path = make_os_path(_real_posixpath)

    m.listdir = lambda path=".": cur().k_listdir(path)
    m.stat = lambda path, **kw: cur().k_stat(path)
    m.lstat = lambda path, **kw: cur().k_stat(path, follow=False, kind="lstat")
    m.readlink = lambda path, **kw: cur().k_readlink(path)
    m.access = lambda path, mode, **kw: cur().k_access(path, mode)
    m.statvfs = lambda path: cur().k_statvfs(path)
    m.kill = lambda pid, sig: cur().k_kill(pid, sig)
    m.waitpid = lambda pid, flags: cur().k_waitpid(pid, flags)
    m.getpid = lambda: cur().self_pid
    m.getppid = lambda: cur().self_ppid
    m.sysconf = lambda name: cur().k_sysconf(name)
    m.cpu_count = lambda: cur().ncpu_online
    m.getloadavg = lambda: (0.5, 0.25, 0.125)

    def register_at_fork(*, before=None, after_in_parent=None,
                         after_in_child=None):
        # run by the simulated kernel when the program under test fork()s
        # and goes on in the child (event fork_self)
        if after_in_child is not None:
            State.at_fork_child.append(after_in_child)
        if before is not None:
            State.at_fork_before.append(before)

    m.register_at_fork = register_at_fork

    def walk(top, **kw):
        k = cur()
        try:
            names = k.k_listdir(top)
        except OSError:
            return
        dirs, files = [], []
        for n in names:
            full = top.rstrip("/") + "/" + n
            try:
                st = k._stat(full, k._split_proc(full), True, 0)
            except OSError:
                files.append(n)
                continue
            (dirs if stat.S_ISDIR(st.st_mode) else files).append(n)
        yield top, dirs, files
        for d in dirs:
            yield from walk(top.rstrip("/") + "/" + d)

    m.walk = walk
    return m


# ---------------------------------------------------------------------------
# time / glob / threading / resource / pwd / subprocess

def make_time():
    m = types.ModuleType("time")
    m.__dict__.update({k: v for k, v in _real_time.__dict__.items()
                       if not k.startswith("__")})
    m.time = lambda: cur().time_time()
    m.monotonic = lambda: cur().time_monotonic()
    m.sleep = lambda dt: cur().time_sleep(dt)
    for name in ("perf_counter", "process_time", "time_ns", "monotonic_ns",
                 "perf_counter_ns", "clock_gettime", "clock_gettime_ns"):
        m.__dict__[name] = _unmodelled("time", name)
    return m


def make_glob():
    m = types.ModuleType("glob")
    m.__dict__.update({k: v for k, v in _real_glob.__dict__.items()
                       if not k.startswith("__")})
    m.glob = lambda pattern, **kw: K.vfs_glob(cur(), pattern)
    m.iglob = lambda pattern, **kw: iter(K.vfs_glob(cur(), pattern))
    return m


class SimLock:
    """Lock usable with and without the baton scheduler."""

    def __init__(self, reentrant=False):
        self.reentrant = reentrant
        self.owner = None
        self.count = 0

    def _me(self):
        k = State.kernel
        return k.cur_thread if k is not None else 0

    def acquire(self, blocking=True, timeout=-1):
        k = State.kernel
        sched = k.sched if k is not None else None
        me = self._me()
        if sched is not None:
            sched.yield_point("lock_acquire")
        while True:
            if self.owner is None:
                self.owner = me
                self.count = 1
                return True
            if self.owner == me:
                if self.reentrant:
                    self.count += 1
                    return True
                raise HarnessError("self-deadlock on non-reentrant lock")
            if not blocking:
                return False
            if sched is None:
                raise HarnessError("lock contended without scheduler")
            sched.block_on(self)
            me = self._me()

    def release(self):
        me = self._me()
        if self.owner != me:
            raise RuntimeError("release of un-acquired lock")
        self.count -= 1
        if self.count == 0:
            self.owner = None
            k = State.kernel
            if k is not None and k.sched is not None:
                k.sched.lock_released(self)

    def locked(self):
        return self.owner is not None

    def __enter__(self):
        self.acquire()
        return self

    def __exit__(self, *exc):
        self.release()
        return False


class _SimThreadInfo:
    def __init__(self, ident, name=None):
        self.ident = ident
        self.name = name or "sim-%d" % ident


def make_threading():
    m = types.ModuleType("threading")
    m.__dict__.update({k: v for k, v in _real_threading.__dict__.items()
                       if not k.startswith("__")})
    m.Lock = lambda: SimLock(False)
    m.RLock = lambda: SimLock(True)

    def current_thread():
        k = State.kernel
        t = k.cur_thread if k is not None else 0
        # distinct, stable, never-reused idents (DESIGN 4.2)
        # names are the application's choice and need not be distinct
        names = k.cfg.get("thread_names") if k is not None else None
        return _SimThreadInfo(7000 + t, "MainThread" if t == 0 else
                              (names or {}).get(str(t)))

    m.current_thread = current_thread
    return m


def make_resource():
    m = types.ModuleType("resource")
    m.__dict__.update({k: v for k, v in _real_resource.__dict__.items()
                       if not k.startswith("__")})
    m.prlimit = lambda pid, res, limits=None: cur().k_prlimit(pid, res, limits)
    # the caller's own limits: never the real process's
    m.setrlimit = lambda res, limits: cur().k_prlimit(
        cur().self_pid, res, limits) and None
    m.getrlimit = lambda res: cur().k_prlimit(cur().self_pid, res)
    return m


class _Pw:
    def __init__(self, name, uid):
        self.pw_name = name
        self.pw_uid = uid


def make_pwd():
    m = types.ModuleType("pwd")

    def getpwuid(uid):
        k = cur()
        k._acc("getpwuid", uid)
        try:
            return _Pw(k.passwd[uid], uid)
        except KeyError:
            raise KeyError("getpwuid(): uid not found: %d" % uid) from None

    m.getpwuid = getpwuid
    m.struct_passwd = _real_pwd.struct_passwd
    return m


def make_subprocess():
    m = types.ModuleType("subprocess")
    m.__dict__.update({k: v for k, v in _real_subprocess.__dict__.items()
                       if not k.startswith("__")})

    class Popen:
        """fork+exec in the simulated kernel: a child of the caller with the
        lowest free PID; no pipes.  Only what psutil.Popen touches."""

        def __init__(self, args, **kw):
            k = cur()
            k._acc("fork", str(args)[:40])
            try:
                pid = k.alloc_pid()
            except RuntimeError:
                raise OSError(errno.EAGAIN, "Resource temporarily "
                              "unavailable") from None
            k.stat_inc("popen_fork")
            k.spawn(pid=pid, ppid=k.self_pid, comm=str(args[0])[:15],
                    is_child=True)
            self.args = args
            self.pid = pid
            self.returncode = None
            self.stdin = self.stdout = self.stderr = None

        def poll(self):
            if self.returncode is None:
                try:
                    pid, st = cur().k_waitpid(self.pid, _real_os.WNOHANG)
                    if pid:
                        self.returncode = _real_os.waitstatus_to_exitcode(st)
                except ChildProcessError:
                    self.returncode = 0
            return self.returncode

        def __enter__(self):
            return self

        def __exit__(self, *a):
            return None

    m.Popen = Popen
    return m


# ---------------------------------------------------------------------------
# native extension proxies (Linux)

def make_cext_proxies(psutil_dir):
    """Load the real extensions from the scratch copy and wrap them."""
    import importlib.util
    import glob as g
    out = {}
    for short in ("_psutil_linux", "_psutil_posix"):
        cands = g.glob("%s/%s*.so" % (psutil_dir, short))
        if not cands:
            raise HarnessError("extension %s not built in %s" %
                               (short, psutil_dir))
        spec = importlib.util.spec_from_file_location(
            "psutil." + short, cands[0])
        real = importlib.util.module_from_spec(spec)
        spec.loader.exec_module(real)
        m = types.ModuleType("psutil." + short)
        for name, val in real.__dict__.items():
            if name.startswith("__") and name not in ("__file__",):
                continue
            if callable(val) and name not in (
                    "check_pid_range", "getpagesize", "set_debug"):
                m.__dict__[name] = _unmodelled(short, name)
            else:
                m.__dict__[name] = val
        m.__file__ = cands[0]
        m._real = real
        out[short] = m
    lx, px = out["_psutil_linux"], out["_psutil_posix"]
    px.getpriority = lambda pid: cur().k_getpriority(pid)
    px.setpriority = lambda pid, v: cur().k_setpriority(pid, v)
    px.net_if_addrs = lambda: list(cur().cfg.get("if_addrs") or [])
    px.net_if_mtu = lambda name: 1500
    px.net_if_flags = lambda name: ["up", "running"]
    px.net_if_is_running = lambda name: True
    lx.proc_ioprio_get = lambda pid: cur().k_ioprio_get(pid)
    lx.proc_ioprio_set = lambda pid, c, v: cur().k_ioprio_set(pid, c, v)
    lx.proc_cpu_affinity_get = lambda pid: cur().k_affinity_get(pid)
    lx.proc_cpu_affinity_set = lambda pid, cpus: cur().k_affinity_set(
        pid, cpus)
    lx.users = lambda: []
    lx.disk_partitions = lambda path: list(cur().cfg.get("mounts") or [])
    lx.linux_sysinfo = lambda: (0, 0, 0, 0, 0, 0, 1)
    lx.net_if_duplex_speed = lambda name: (lx.DUPLEX_FULL, 1000)
    return lx, px


# ---------------------------------------------------------------------------
# open()

def sim_open(file, mode="r", buffering=-1, encoding=None, errors=None,
             newline=None, closefd=True, opener=None):
    if any(c in mode for c in "wax+"):
        raise HarnessError("psutil opened %r for writing" % (file,))
    return cur().k_open(file, binary="b" in mode, encoding=encoding,
                        errors=errors)


# ---------------------------------------------------------------------------
# import window

PROXIED = ("os", "time", "glob", "threading", "resource", "pwd", "subprocess")


def import_psutil(scratch, kernel, extra_modules=None, native=None):
    """Import the psutil package found in `scratch` under proxies.

    extra_modules: {name: module} additional sys.modules substitutions that
    stay only for the window (C20: 'sys', 'signal').
    native: {fullname: module} stub native modules pre-seeded (and kept).
    Returns the psutil module.
    """
    assert "psutil" not in sys.modules, "psutil already imported"
    State.kernel = kernel
    proxies = {
        "os": make_os(), "time": make_time(), "glob": make_glob(),
        "threading": make_threading(), "resource": make_resource(),
        "pwd": make_pwd(), "subprocess": make_subprocess(),
    }
    if extra_modules:
        proxies.update(extra_modules)
    saved = {name: sys.modules.get(name) for name in proxies}
    saved_path = list(sys.path)
    sys.path.insert(0, scratch)
    try:
        if native is None:
            lx, px = make_cext_proxies(scratch + "/psutil")
            sys.modules["psutil._psutil_linux"] = lx
            sys.modules["psutil._psutil_posix"] = px
        else:
            for name, mod in native.items():
                sys.modules[name] = mod
        for name, mod in proxies.items():
            sys.modules[name] = mod
        # os.path must resolve to the proxy path module for `import os.path`
        saved["os.path"] = sys.modules.get("os.path")
        sys.modules["os.path"] = proxies["os"].path
        # psutil reads /proc/stat etc. while being imported: builtins.open is
        # routed to the simulated VFS for the duration of the window only
        import builtins
        real_open = builtins.open

        def window_open(file, *a, **kw):
            f = file if isinstance(file, str) else ""
            if f.startswith(scratch) or f.endswith((".py", ".pyc")):
                return real_open(file, *a, **kw)
            return sim_open(file, *a, **kw)

        builtins.open = window_open
        try:
            psutil = importlib.import_module("psutil")
        finally:
            builtins.open = real_open
            for name, mod in saved.items():
                if mod is None:
                    sys.modules.pop(name, None)
                else:
                    sys.modules[name] = mod
    finally:
        sys.path[:] = saved_path
    # shadow the builtin open in every psutil module that calls it
    for name, mod in list(sys.modules.items()):
        if name == "psutil" or name.startswith("psutil."):
            if isinstance(mod, types.ModuleType) and hasattr(mod, "__dict__"):
                if getattr(mod, "__file__", "") and \
                        str(mod.__file__).endswith(".py"):
                    mod.__dict__["open"] = sim_open
    if not psutil.__file__.startswith(scratch):
        raise HarnessError("psutil imported from %s, not from the scratch "
                           "copy %s" % (psutil.__file__, scratch))
    psutil._sim_proxies = proxies
    return psutil
