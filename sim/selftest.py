"""Self-tests of the machinery (DESIGN 4.4, 11.3).

selftest-determinism: the same batches are executed with 16 workers, with 1
worker and a third time; the per-batch digest (hash over the trace digests of
every simulated run, in order) must be identical, and the verdicts equal.

selftest-mutants: every patch in /verif/mutants is applied to a scratch copy
(never to /repo) and the quick tier of its property must report a violation
that the unchanged tree does not show.
"""

import glob
import json
import os
import subprocess
import sys
import time

from . import master as M

VERIF = M.VERIF


def determinism(seed, jobs, only=None):
    bad = 0
    for prop in sorted(M.PROPS):
        if only and prop not in only:
            continue
        cfg = json.loads(json.dumps(M.PROPS[prop]))
        q = cfg["quick"]
        q["batches"] = min(q["batches"], 8 if prop == "C20" else 6)
        # a wall-clock cut (one worker on a loaded machine) is not a
        # difference between executions
        q["wall"] = 7200
        q["units"] = min(q["units"], 12 if prop not in ("C03", "C19", "C20",
                                                        "C14") else 1)
        for leg in q.get("legs") or []:
            leg["batches"] = min(leg["batches"], 3)
            leg["units"] = min(leg["units"], 6)
        runs = []
        for j in (16, 1, 5):
            m = M.Master(prop, "quick", seed, j, cfg)
            try:
                m.setup()
                results, _, wall = m.run_batches()
            finally:
                m.cleanup()
            runs.append({(r["engine"], r["batch"]): (
                r.get("digest_all"), r.get("ndigests"), r.get("evals"),
                sorted(M.sig_str(v["sig"]) for v in r.get("violations", [])),
                r.get("harness_error")) for r in results})
        ok = runs[0] == runs[1] == runs[2]
        n = sum(v[1] or 0 for v in runs[0].values())
        errs = [v[4] for v in runs[0].values() if v[4]]
        print("determinism %s: %s (%d batches, %d simulated runs x3, "
              "jobs 16/1/5)%s" % (prop, "OK" if ok and not errs else
                                  "MISMATCH", len(runs[0]), n,
                                  " harness errors: %r" % errs[:2]
                                  if errs else ""))
        if not ok or errs:
            bad += 1
            for key in runs[0]:
                if not (runs[0][key] == runs[1].get(key) == runs[2].get(key)):
                    print("   batch %r differs: %r / %r / %r" % (
                        key, runs[0][key][:3], runs[1].get(key, ())[:3],
                        runs[2].get(key, ())[:3]))
    if bad:
        print("HARNESS-ERROR determinism self-test failed for %d properties"
              % bad)
        return 2
    print("selftest-determinism: all properties reproducible")
    return 0


def mutants(seed, jobs, only=None):
    files = sorted(glob.glob(os.path.join(VERIF, "mutants", "*.diff")))
    missed = []
    for f in files:
        meta = {}
        with open(f) as fh:
            for line in fh:
                if line.startswith("# "):
                    k, _, v = line[2:].partition(":")
                    meta[k.strip()] = v.strip()
                else:
                    break
        prop = meta.get("property")
        if only and prop not in only:
            continue
        env = dict(os.environ, VERIF_PATCH=f, VERIF_SEED=str(seed))
        t0 = time.time()
        r = subprocess.run([os.path.join(VERIF, "vcheck"), prop, "--tier",
                            meta.get("tier", "quick")], env=env,
                           stdout=subprocess.PIPE, stderr=subprocess.STDOUT,
                           text=True, cwd=VERIF)
        caught = r.returncode == 1 and "VIOLATION property=%s" % prop in \
            r.stdout
        want = meta.get("expect", "caught")
        ok = caught == (want == "caught")
        first = [line for line in r.stdout.splitlines()
                 if line.startswith("  C")][:1]
        print("%s %-34s %s %s (%.0fs) %s" % (
            "ok  " if ok else "FAIL", os.path.basename(f), prop,
            "caught" if caught else "rc=%d not caught" % r.returncode,
            time.time() - t0, first[0][:150] if first else ""))
        if not ok:
            missed.append(os.path.basename(f))
            if r.returncode == 2:
                print("\n".join(r.stdout.splitlines()[-6:]))
    for f in glob.glob(os.path.join(VERIF, "replays", "*.json")):
        pass
    if missed:
        print("selftest-mutants: %d not as expected: %s" % (len(missed),
                                                             missed))
        return 1
    print("selftest-mutants: %d mutants behaved as expected" % len(files))
    return 0


def main(target, seed, jobs):
    if target.startswith("selftest-determinism"):
        only = target.split(":", 1)[1].split(",") if ":" in target else None
        return determinism(seed, jobs, only)
    if target == "selftest-fidelity":
        from . import fidelity
        return fidelity.main()
    if target.startswith("selftest-mutants"):
        only = target.split(":", 1)[1].split(",") if ":" in target else None
        return mutants(seed, jobs, only)
    print("unknown self-test %s" % target)
    return 2
