"""Entry point of a worker interpreter (never imported as a module)."""
import os
import sys

sys.path.insert(0, os.path.dirname(os.path.dirname(os.path.abspath(__file__))))
os.environ.setdefault("TZ", "UTC")
os.environ["LC_ALL"] = "C.UTF-8"
os.environ.pop("PSUTIL_DEBUG", None)

from sim import runner  # noqa: E402

if __name__ == "__main__":
    sys.exit(runner.main(sys.argv))
