#!/venv/bin/python
"""Compare a junit xml of the repo's test-suite with /root/.vp/BASELINE.json."""
import json, sys
import xml.etree.ElementTree as ET
base = json.load(open('/root/.vp/BASELINE.json'))
want = set(base['stable_pass'])
root = ET.parse(sys.argv[1]).getroot()
passed = set()
other = {}
for tc in root.iter('testcase'):
    name = "%s::%s" % (tc.get('classname'), tc.get('name'))
    bad = [c.tag for c in tc if c.tag in ('failure', 'error', 'skipped')]
    if bad:
        other[name] = bad[0]
    else:
        passed.add(name)
missing = sorted(want - passed)
print("baseline stable_pass:", len(want), "passed now:", len(passed), "missing from pass:", len(missing))
for m in missing[:40]:
    print("  NOT PASSING:", m, other.get(m))
sys.exit(1 if missing else 0)
