#!/bin/bash
# usage: tools/confirm_seeded.sh <prop> <dir-with-patch.diff+demo.py> <name> [--tests]
# Confirms an independently written breaking change in a scratch worktree of
# /repo's HEAD (outside /repo and /verif), runs our quick check against it, and
# stores it under /verif/seeded/<prop>-<name>/ .
set -u
prop=$1; src=$2; name=$3; tests=${4:-}
id=$prop-$name
wt=/tmp/confirm-$id
out=/verif/seeded/$id
mkdir -p $out
git -C /repo worktree remove --force $wt >/dev/null 2>&1
git -C /repo worktree add -q --detach $wt HEAD || exit 3
cd $wt
cp $src/patch.diff $out/patch.diff; cp $src/demo.py $out/demo.py; cp $src/notes.md $out/notes.md 2>/dev/null
/venv/bin/python setup.py build_ext --inplace -q >/dev/null 2>&1
demo_clean=$( ( cd $wt && timeout 300 /venv/bin/python $out/demo.py >/tmp/confirm-$id.clean.log 2>&1 ); echo $? )
applies=yes
git apply --check $out/patch.diff 2>/dev/null || applies=no
if [ $applies = no ]; then echo "$id: patch does not apply to current HEAD"; echo "{\"applies\": false}" > $out/confirm.json; git -C /repo worktree remove --force $wt; exit 4; fi
git apply $out/patch.diff
/venv/bin/python setup.py build_ext --inplace -q >/dev/null 2>&1
imp=$( ( cd $wt && /venv/bin/python -c 'import psutil; psutil.Process().as_dict(); print("ok")' 2>&1 | tail -1 ) )
demo_mut=$( ( cd $wt && timeout 300 /venv/bin/python $out/demo.py >/tmp/confirm-$id.mut.log 2>&1 ); echo $? )
tests_res="not-run"
if [ "$tests" = "--tests" ]; then
  ( cd $wt && timeout 2400 /venv/bin/python -m pytest -ra -q -p no:cacheprovider --timeout=900 --continue-on-collection-errors --junitxml=/tmp/confirm-$id.junit.xml > /tmp/confirm-$id.pytest.log 2>&1 )
  tests_res=$(/verif/tools/cmp_baseline.py /tmp/confirm-$id.junit.xml | head -3 | tr '\n' ' ')
fi
cd /verif
chk=$(VERIF_PATCH=$out/patch.diff ./vcheck $prop --tier quick 2>&1); rc=$?
first=$(echo "$chk" | grep -E "^  C[0-9]" | head -2 | cut -c1-300 | tr '\n' ' ' | tr '"' "'")
/venv/bin/python - <<PY
import json
json.dump({"id": "$id", "property": "$prop", "applies": True, "imports": "$imp",
           "demo_exit_clean_tree": $demo_clean, "demo_exit_mutated_tree": $demo_mut,
           "existing_tests_vs_baseline": """$tests_res""",
           "quick_check_exit": $rc, "quick_check_first_violations": """$first"""},
          open("$out/confirm.json", "w"), indent=1)
PY
echo "$id: demo clean=$demo_clean mutated=$demo_mut import=$imp tests=[$tests_res] quick rc=$rc :: $first"
git -C /repo worktree remove --force $wt
rm -f /tmp/confirm-$id.junit.xml
