#!/bin/bash
# usage: tools/confirm_tests.sh <seeded-id> : run the repository's full baseline
# command on a scratch worktree with the seeded patch applied and compare with
# BASELINE.json. Result -> /verif/seeded/<id>/tests.json
id=$1
wt=/tmp/ctest-$id
git -C /repo worktree remove --force $wt >/dev/null 2>&1
git -C /repo worktree add -q --detach $wt HEAD || exit 3
cd $wt && git apply /verif/seeded/$id/patch.diff || { echo "$id: patch does not apply"; exit 4; }
/venv/bin/python setup.py build_ext --inplace -q >/dev/null 2>&1
timeout 3000 /venv/bin/python -m pytest -ra -q -p no:cacheprovider --timeout=900 --continue-on-collection-errors --junitxml=/tmp/ctest-$id.xml > /tmp/ctest-$id.log 2>&1
res=$(/verif/tools/cmp_baseline.py /tmp/ctest-$id.xml | tr '\n' ';' | tr '"' "'")
# tests of the baseline that did not pass are re-run alone (the sandbox is busy:
# PID reuse and thread-id races make a few of them flaky under load)
rerun=""
for t in $(/verif/tools/cmp_baseline.py /tmp/ctest-$id.xml | grep "NOT PASSING" | awk '{print $3}'); do
  mod=${t%%::*}; rest=${t#*::}; file=$(echo $mod | sed 's|\.[A-Za-z]*$||; s|\.|/|g').py; cls=${mod##*.}
  ok=no
  for i in 1 2 3; do
    if timeout 600 /venv/bin/python -m pytest -q -p no:cacheprovider "$file::$cls::$rest" >/tmp/ctest-$id.rerun.log 2>&1; then ok=yes; break; fi
  done
  rerun="$rerun $cls::$rest re-run alone: passed=$ok;"
done
res="$res$rerun"
tailline=$(tail -1 /tmp/ctest-$id.log | tr '"' "'")
echo "{\"id\": \"$id\", \"baseline_compare\": \"$res\", \"pytest_summary\": \"$tailline\"}" > /verif/seeded/$id/tests.json
echo "$id :: $res"
cd /verif; git -C /repo worktree remove --force $wt; rm -f /tmp/ctest-$id.xml
