#!/venv/bin/python
"""Regenerate /verif/MANIFEST.json from the table below."""
import json
import os
import sys

HERE = os.path.dirname(os.path.dirname(os.path.abspath(__file__)))
sys.path.insert(0, HERE)
from sim.master import PROPS  # noqa: E402

NA = {
    "C06": "pure decode of one kernel record into one value: no schedule, clock, fault or history in the statement; a simulator would only add an input generator and a second decoder (differential testing)",
    "C08": "arithmetic on one /proc/meminfo(+vmstat, zoneinfo) snapshot; missing fields are file content, not I/O faults; no time or concurrency",
    "C09": "column mapping / aggregation of one snapshot of /proc/net/dev, /proc/diskstats, one statvfs result; the history of the same counters is C10 (claimed)",
    "C11": "decode/join of one socket-table snapshot; quantified over inputs only",
    "C12": "decoding of argv/environ/link strings and name/exe heuristics on one snapshot; quantified over inputs only",
    "C13": "conservation arithmetic over one statm/smaps/smaps_rollup snapshot; quantified over inputs only",
    "C17": "memory safety of C code on hostile bytes: a sanitizer/fuzzing target with no schedule, clock or fault dimension; the syscall entry points of the extension are what the simulated kernel replaces",
    "C18": "value round trip through real setpriority/ioprio_set/sched_setaffinity/prlimit implemented in C plus pure argument validation; simulating the kernel would remove the code under test (delivery to the right PID/value is checked under C01)",
}

_PT_NOTE = ("Trusted base: the SimKernel model (process table, PID allocator, procfs rendering, kill/setpriority/ioprio_set/sched_setaffinity/prlimit argument ranges and errnos), the import-window seam substitution, CPython. Assumes no PID reuse within the start tick of the previous owner and no reuse between the identity re-check and the delivering syscall of one call (DESIGN 9/C01).")
_PT_TECH = "deterministic simulation: seeded histories of spawn/exit/reap/PID-reuse events between and inside psutil calls over a simulated kernel; reference-model oracle over the kernel's effects log; ddmin-shrunk replay files"
TEXT = {
    "C01": dict(
        technique=_PT_TECH,
        text="Seeded search over histories (tiny PID ranges force reuse; events fire between calls and just before the n-th procfs access inside a call). The oracle reads the simulated kernel's effects log: every signal/setting caused by a handle must reach the incarnation the handle was created for, with the exact payload; a call on a recycled PID must raise NoSuchProcess and deliver nothing; no kill() with pid <= 0 ever. Sampled, not exhaustive: a clean batch is evidence, not proof.",
        note=_PT_NOTE + " Handles include psutil.Popen objects whose child is reaped behind their back, objects yielded by process_iter(), multi-threaded targets (thread ids are valid sched_setaffinity() targets in the model) and a program that fork()s and goes on in the child.", ref="DESIGN.md section 9, C01"),
    "C02": dict(
        technique=_PT_TECH + "; wall-clock steps as events",
        text="Same histories plus wall-clock steps (the published btime moves) and interleaved boot_time()/create_time()/process_iter(); for every pair of handles ==/hash() must follow (pid, incarnation) and is_running() must follow the incarnation's presence in the table, be sticky once False and never be resurrected by PID reuse. Sampled.",
        note=_PT_NOTE + " Handles are also built while /proc/<pid>/stat is unreadable and through psutil.Popen (simulated fork); harmless calls (signal 0, SIGCONT, signal numbers refused with EINVAL) are made in between; a few worlds serve the procfs of another PID namespace (kill(2) knows none of its PIDs). A second leg (threads engine) has 2-3 real threads call is_running()/== on one shared object under the baton scheduler while at most one of them makes the process exit or the PID change hands.", ref="DESIGN.md section 9, C02"),
    "C04": dict(
        technique=_PT_TECH + "; overlapping iterators",
        text="Histories of table changes between and during pids()/pid_exists()/process_iter() (complete, partial, with attrs, overlapping generators, cache_clear): listing equality at the listing access, ascending/unique/listed yields, object identity across successive non-overlapping complete iterations, eviction, refresh after is_running() found a recycled PID, eventual coherence after overlap. Sampled.",
        note=_PT_NOTE + " A second leg (threads engine) runs two real threads iterating at once under the baton scheduler (safety clauses + eventual coherence).", ref="DESIGN.md section 9, C04"),
    "C05": dict(
        technique=_PT_TECH + "; arbitrary parent-link graphs",
        text="Quiescent tables with arbitrary parent links (forests, self-loops, cycles, unlisted parents, equal/inverted start times) are compared exactly with a breadth-first reference; moving tables (events inside the scan) are checked for soundness; termination is enforced by a seam-call budget; recycled callers must raise NoSuchProcess. Sampled.",
        note=_PT_NOTE + " parents() is not judged on tables whose reference parent chain is endless (self-parent / equal-age cycle): the statement promises termination for children() only. A second leg (threads engine) runs read-only tree queries from 2-3 real threads on a table that does not change: every answer must be the single-threaded one.", ref="DESIGN.md section 9, C05"),
    "C07": dict(
        technique="deterministic simulation: seeded histories of per-CPU tick tables over a virtual clock (blocking calls sleep in virtual time while tick events fire); exact-rational reference oracle",
        text="Seeded histories of /proc/stat tick tables (sub-second totals, zero deltas, fields going backwards, 7-10 kernel fields, 1-8 CPUs with holes) driven through cpu_times/cpu_percent/cpu_times_percent (blocking and non-blocking, percpu or not) and Process.cpu_percent; the simulator records which /proc/stat version every read returned, and the oracle recomputes each result with fractions from exactly the two samples the call must have used. Sampled.",
        note="Trusted base: SimKernel's /proc/stat renderer and virtual clock, the seam substitution. Rows where the guest delta exceeds the user delta are only range-checked. The per-thread sample clause is exercised with real interleavings by the threads engine, which in part of its programs shares one Process object between threads (every answer must follow from the call's own sample and the sample of some other call). Faults: failing /proc/stat reads, CPU hot-plug, clock quiet periods, overshooting sleeps, a signal handler measuring on the same thread during a blocking call's sleep.",
        ref="DESIGN.md section 9, C07"),
    "C10": dict(
        technique="deterministic simulation: seeded histories of raw counter snapshots against a sequential reference model of the nowrap statement",
        text="Seeded histories of raw /proc/net/dev and /proc/diskstats snapshots (32/64-bit wraps, repeated wraps, resets, devices leaving/returning, all devices gone, new devices) with net_io_counters/disk_io_counters/cache_clear in any order and alternating nowrap; every result must equal a 30-line reference model (raw + sum of pre-decrease values per continuous presence), be monotone per device, and the two functions must not influence one another. Sampled.",
        note="Trusted base: the reference model (sim/engines/counters.py WrapModel), SimKernel table renderers. perdisk/pernic fixed per run.",
        ref="DESIGN.md section 9, C10"),
    "C14": dict(
        technique="deterministic simulation: descriptor-table events injected at chosen OS access indexes of open_files() over a simulated /proc/<pid>/fd",
        text="Per seeded descriptor table a fault-free run numbers the accesses of open_files(); seeded runs then close/open descriptors (and sometimes kill or zombify the process) right before chosen accesses. For a live process the call must return; every entry must agree with the descriptor's kernel state (path, fd, offset, flags, mode string); every regular-file descriptor that stayed open must be listed once. num_fds()/io_counters() are compared with the table/the six counters. Sampled.",
        note="Trusted base: SimKernel fd/fdinfo/io renderers. Mode string for access mode 3 is not judged; deleted targets judged for soundness only. Further plans: a second call inside/outside one oneshot() block after the table changed, an unreadable fdinfo record, psutil.PROCFS_PATH reassigned after the object was built, the target being the parent of a program that fork()ed after importing psutil. A second leg (threads engine) runs open_files()/num_fds()/io_counters() from 2-3 real threads on an unchanging table against the single-threaded answers.",
        ref="DESIGN.md section 9, C14"),
    "C15": dict(
        technique="deterministic simulation on a discrete-event virtual clock: exit instants placed relative to psutil's poll schedule and the deadline, EINTR injected at chosen waitpid calls",
        text="wait()/wait_procs() run on a virtual clock where time only moves through psutil's own sleep() calls; the exit (or reap) instant of each process is placed before the call, between/at poll instants, within the last poll interval, exactly at, just after and long after the deadline, or never; EINTR is delivered to chosen waitpid calls. The oracle reads every (virtual time, waitpid/kill/sleep/clock) record: status, not-early, cached, timeout legitimacy, one-poll-late, poll bounds, partition/callback rules. Sampled over ~2.4k distinct cells per quick run.",
        note="Trusted base: SimKernel waitpid/kill(0) semantics and the virtual clock. System calls take zero virtual time; a jitter configuration exercises overshooting sleeps with only jitter-proof clauses. No PID reuse.",
        ref="DESIGN.md section 9, C15"),
    "C16": dict(
        technique="deterministic simulation: seeded oneshot()/as_dict() histories with differential self-oracle on pinned kernel versions, plus real threads under a baton scheduler with line-granular bounded pre-emption",
        text="Single-thread: seeded histories of enter / nested enter / exit / exit-by-exception / getter / as_dict / kernel-change events; a value returned inside a block must equal what the same getter returns outside any block on a view of the kernel whose source files are pinned at the versions first read in the block (or current), shared sources are opened at most once per block, the next call after exit re-reads and is current, as_dict has the exact keys / ad_value policy / early ValueError-TypeError. Threads: 2-3 real threads (one using oneshot()/as_dict(), others plain getters or their own blocks on the same object) run under a scheduler that hands a baton over at plan-chosen source lines, seam calls and lock operations (<= 4 quick / <= 8 thorough voluntary pre-emptions, biased to memoize_when_activated / cache_activate / cache_deactivate / oneshot lines); no call may raise, no deadlock, every value must be the answer for some kernel version inside the call's window. Sampled.",
        note="Trusted base: the baton scheduler (sim/sched.py), sys.settrace line events, SimLock, SimKernel. Pre-emption is line-granular; free-threaded builds are not modelled. The differential oracle calls psutil itself on a fresh handle outside oneshot (the statement's own reference).",
        ref="DESIGN.md section 9, C16"),
    "C19": dict(
        technique="deterministic simulation: generated sysfs/procfs hardware trees in a simulated VFS with enumerated per-file faults (absent / EACCES / EIO / ENODEV / ENXIO / non-numeric), reference computed from the tree, pinned hash seeds",
        text="Per seeded hardware tree every subject (sensors_temperatures in C and F, sensors_fans, sensors_battery, cpu_freq, cpu_count, cpu_stats, boot_time) runs fault-free and is compared exactly with a reference computed from the tree by the rules of the statement; then each sysfs file the call opened is made absent, EACCES on open, or EIO/ENODEV/ENXIO on read (thresholds also non-numeric), one at a time: a faulted reading file must only drop that sensor, a faulted optional file must only change what the statement says. Exhaustive in (file touched, fault kind) per tree; trees are sampled; each batch runs under one of four pinned PYTHONHASHSEED values because psutil iterates sets of names.",
        note="Trusted base: the reference functions in sim/engines/sysfs.py, SimKernel VFS + glob. Faults on files the statement promises no tolerance for (chip name, scaling_max/min_freq, zone type, /proc files) are executed but not judged.",
        ref="DESIGN.md section 9, C19"),
    "C20": dict(
        technique="deterministic simulation of the non-Linux platform layers on Linux: fresh interpreter per platform identity under faked sys.platform/os.name, table-driven stub native modules, errno injected at every per-process native/procfs call (enumerated), stub process table kept consistent",
        text="For each of FreeBSD, OpenBSD, NetBSD, macOS, Solaris, AIX and Windows (plus Windows 7, where the 8.1+ native fallbacks are missing, and two AIX builds of the extension without optional libperfstat interfaces) the real platform module and the platform-conditional front end are imported over stub native modules whose records carry a distinct value per slot in the order of the C sources. Every Process method (pid ordinary / 0 / low, live / zombie, with and without a cached name) runs fault-free (layout check against the C slot order, Windows permission fallbacks against proc_info slots) and then once per (per-process native or procfs call, errno) with the pid turned absent or zombie for 'no such process' errnos: the outcome must be a value, NoSuchProcess (absent) / ZombieProcess (listed zombie) / AccessDenied (permission class) with pid and cached name, or the same error passed through. net_if_addrs front-end post-processing and the documented per-platform names are checked too. Exhaustive over (platform, method, call, errno) in both tiers; thorough adds sampled double faults.",
        note="Trusted base: the stub tables in sim/engines/foreign.py (function inventories and slot orders transcribed from psutil/_psutil_*.c and psutil/arch/*), the seam substitution. The C code itself is not executed. Methods that shell out (Solaris pfiles part of net_connections('unix'/'all'), AIX open_files) and OpenBSD exe() are not simulated. Faults are not injected into system-wide native calls nor into psutil's own zombie/existence probes after a first failure.",
        ref="DESIGN.md section 9, C20"),
    "C03": dict(
        technique="deterministic simulation: seeded worlds + enumerated fault injection at every OS access index (fork-per-run, trace digest, ddmin-shrunk replay files)",
        text="For every seeded world, every Process query method is run once fault-free to number its OS accesses, then once per (pid-related access k) x {process vanishes, turns zombie, EACCES, EPERM} plus sampled two-fault sequences; each outcome must be a well-shaped value or NoSuchProcess/ZombieProcess/AccessDenied with the right cause and pid, and after a vanish every getter must raise NoSuchProcess. Exhaustive in (method, access, fault kind) per world, sampled over worlds: evidence, not proof.",
        note="Trusted base: the SimKernel model of procfs/errno behaviour (calibrated against the host kernel, DESIGN 3.3), the import-window seam substitution, CPython. Caller is root in all worlds. The real C extension is used only for constants and pure helpers.",
        ref="DESIGN.md section 9, C03"),
}


def main():
    checks = []
    for pid in sorted(PROPS):
        cfg = PROPS[pid]
        t = TEXT[pid]
        checks.append({
            "property_id": pid,
            "quick_cmd": "./vcheck %s --tier quick" % pid,
            "thorough_cmd": "./vcheck %s --tier thorough" % pid,
            "evidence_file": "evidence/%s.json" % pid,
            "replay_cmd_template": "./vcheck %s --replay {path}" % pid,
            "engine": cfg["engine"],
            "level_claimed": {"category": cfg["level"], "text": t["text"],
                              "design_ref": t["ref"]},
            "level_note": t["note"],
            "technique": t["technique"],
        })
    claimed = set(PROPS)
    na = []
    for i in range(1, 21):
        pid = "C%02d" % i
        if pid in claimed:
            continue
        if pid in NA:
            na.append({"property_id": pid, "reason": NA[pid]})
        else:
            na.append({"property_id": pid, "reason":
                       "check not built yet in this snapshot (planned as a "
                       "simulation target, DESIGN.md section 9); not claimed "
                       "until it exists"})
    engines = {}
    for pid, cfg in PROPS.items():
        engines.setdefault(cfg["engine"], []).append(pid)
    man = {
        "version": 1,
        "setup_cmd": "/venv/bin/python -c 'import setuptools, sys; "
                     "sys.exit(0)' && mkdir -p evidence replays",
        "hooks": {
            "guard": "PSUTIL_VERIF_SIM",
            "enable": "No source hook exists: the checks copy /repo's working "
                      "tree to a scratch dir, build it, and import it with "
                      "sys.modules['os','time','glob','threading','resource',"
                      "'pwd','subprocess'] and the native extensions "
                      "substituted by simulator proxies for the duration of "
                      "the import (sim/seams.py). The guard name is reserved.",
            "baseline_off_cmd": "cd /repo && /venv/bin/python -m pytest -ra -q "
                                "-p no:cacheprovider --timeout=900 "
                                "--continue-on-collection-errors",
            "source_commits": [],
            "add_only": True,
        },
        "engines": [{"name": n, "path": "sim/engines/%s.py" % n,
                     "serves_properties": sorted(p),
                     "kind_free_text": "deterministic simulation engine "
                     "(seeded plans over SimKernel, fork-per-run)"}
                    for n, p in sorted(engines.items())],
        "checks": checks,
        "not_applicable": na,
        "notes": "Deterministic simulation with fault injection; see "
                 "DESIGN.md. exit 0 held / exit 1 VIOLATION / exit 2 "
                 "HARNESS-ERROR. Genuine defects are listed in "
                 "known_findings.json.",
    }
    with open(os.path.join(HERE, "MANIFEST.json"), "w") as f:
        json.dump(man, f, indent=1)
    print("wrote MANIFEST.json with", len(checks), "checks,", len(na), "n/a")


if __name__ == "__main__":
    main()
