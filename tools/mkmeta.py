#!/venv/bin/python
"""Write /verif/seeded/<id>/meta.json from confirm.json/tests.json + the table below."""
import json, os, glob
D = {
 "C01-isrunning_memoized_in_oneshot": ("is_running() gets @memoize_when_activated and joins the oneshot() cache", "a oneshot() block is open on the object and one call inside it validated the PID while the process was alive; the process exits, the PID is recycled and a signal/setter is issued while the block is still open: delivered to the new owner"),
 "C01-affinity_all_cpus_skips_reuse_check": ("cpu_affinity(): the []-means-all expansion and _raise_if_pid_reused() end up in the two arms of one if/else", "PID reuse plus cpu_affinity([]): the new owner's affinity is reset, no NoSuchProcess"),
 "C02-is_running_oserror_sticky": ("is_running(): last handler widened to `except (NoSuchProcess, OSError)`", "a transient EMFILE/EIO while probing a live process sets the sticky _gone flag: is_running() False for ever"),
 "C02-pids_reused_fast_path": ("is_running() trusts the module-wide reused-PID set", "old object's is_running() detects reuse, then every object of the NEW process with that PID answers False until a process_iter() drains the set"),
 "C03-enoent_checks_proc_dir": ("wrap_exceptions tests /proc/PID instead of /proc/PID/stat before re-raising FileNotFoundError", "half-released process (issue 2418: directory resolvable, every file below ENOENT): ~25 getters leak a bare FileNotFoundError"),
 "C03-memory_maps_lazy_generator": ("_pslinux.Process.memory_maps() becomes a generator (wrap_exceptions only covers its creation)", "a mapped file carrying ' (deleted)' whose stat() is refused (EACCES/EPERM): bare PermissionError from memory_maps()/as_dict()/process_iter()"),
 "C04-cache_commit_in_place": ("process_iter() commits with _pmap.clear(); _pmap.update(pmap) instead of rebinding", "thread B starts a pass between A's clear() and update(): B copies an empty cache and yields fresh objects for long-cached, still-alive PIDs"),
 "C04-nsp_during_iter_keeps_entry": ("process_iter(): the per-process `except NoSuchProcess: remove(pid)` becomes pass", "a cached PID exits during an attrs pass after the listing, the PID is recycled before the next pass: the stale object is yielded for ever"),
 "C05-cycle_guard_self_loop_only": ("children(recursive=True): guard `child_pid == self.pid` becomes `child_pid == pid` (the node being expanded)", "a parent-table cycle of length >= 2 through the caller: the caller is listed as its own descendant"),
 "C05-children_reuse_pmap_instances": ("children() uses `_pmap.get(pid) or Process(pid)`", "process_iter() cached PID X, X's owner exits, X is recycled as a child of the caller with no process_iter() in between: children() returns the previous owner's object (or drops the live child)"),
 "C07-blocking_skips_baseline": ("blocking cpu_percent(interval>0) no longer records its end sample as the thread's previous sample", "per-thread sequence non-blocking, blocking, non-blocking with different load: the third call spans back to the first"),
 "C07-guest_needs_guest_nice": ("_cpu_tot_time() subtracts guest only when guest_nice exists too", "/proc/stat with exactly 9 fields (guest without guest_nice) and a guest counter that advances"),
 "C10-reminder_keys_overwritten": ("_WrapNumbers.run(): the set of wrapped counters of a device is replaced instead of extended", "counter A of a device wraps, later counter B wraps, the device vanishes and reappears: A's stale offset survives"),
 "C10-cache_clear_not_excluded": ("wrap_numbers() takes a per-name lock while cache_clear()/cache_info() keep the old one", "cache_clear() from thread B while thread A is inside run(): every later call raises KeyError"),
 "C14-isfile_strict_enoent_only": ("isfile_strict() only swallows FileNotFoundError", "a descriptor target whose stat fails with ENOTDIR/ELOOP/ESTALE/EIO: open_files() raises for a live process"),
 "C14-mode_table_append_rdonly": ("file_flags_to_mode() becomes a lookup table with 'r+' as fallback", "O_RDONLY|O_APPEND (and access mode 3 | O_APPEND) reported as 'r+'"),
 "C15-wait_none_not_cached": ("Process.wait() no longer caches a None result", "wait() returned None for a non-child, the PID is recycled, wait() again: polls the stranger (TimeoutExpired / blocks)"),
 "C15-wait_procs_round_deadline": ("wait_procs() reads the clock once per round instead of once per process", "two or more survivors near the deadline and a fractional timeout: returns up to one second late"),
 "C16-cmdline_zombie_check_cached_status": ("cmdline()'s zombie test uses the (cached) status() instead of the uncached probe", "stat cached while alive, the process becomes a zombie inside the block, cmdline(): [] instead of ZombieProcess, as_dict gives [] instead of ad_value"),
 "C16-nested_check_truthy_cache": ("oneshot(): nested-block check hasattr(self, '_cache') becomes getattr(..., None) (an empty cache is falsy)", "outer block with only getters not memoised at Process level, then a nested block: the inner exit wipes the caches"),
 "C19-cpufreq_cpuinfo_index_pairing": ("cpu_freq(): `len(paths) == len(cpuinfo_freqs)` becomes `i < len(cpuinfo_freqs)`", "number of cpufreq policies differs from the number of 'cpu MHz' lines (offline CPU, cluster-shared policies)"),
 "C19-boot_time_1s_fluctuation_damping": ("Linux boot_time() keeps the remembered value when the new btime is within 1 s", "boot_time()/create_time() call, wall clock stepped by less than ~1 s, boot_time() again: stale value"),
 "C20-osx_zombie_from_oneshot_cache": ("_psosx.is_zombie() reads the status through the kinfo getter memoised by oneshot()", "inside one oneshot() block kinfo cached while running, the process becomes a zombie, a native call fails with ESRCH: plain NoSuchProcess instead of ZombieProcess"),
 "C20-win_cached_name_not_propagated": ("Windows branch of Process.name() returns before `self._proc._name = name`", "on Windows after name() was called any translated failure carries name=None"),
 "C01-gone_not_sticky": ("drops the `if self._gone: raise NoSuchProcess` guard at the end of _raise_if_pid_reused() (reverts fix 7ba203e)", "the process exits, psutil observes it gone (is_running() False / signal ESRCH / Popen whose child already died) and only then the PID is recycled: signals and setters reach the new owner"),
 "C01-eq_unknown_ctime_wildcard": ("__eq__ compares by PID only when one creation time is unknown", "PID recycled by a process whose creation time cannot be read at re-validation (EACCES on /proc/pid/stat, zombie owner): is_running() judges (pid, None) equal, signals/setters reach the new owner"),
 "C02-hash_abs_ctime": ("__hash__ hashes (pid, absolute create time) instead of the identity tuple", "object A created, wall clock stepped (btime changes), boot_time() called, object B created for the same live process: equal objects hash differently"),
 "C02-stat_comm_partition": ("_parse_stat_file splits on the first ') ' instead of the last ')'", "a process whose name contains ') ' (fields shift, identity built from num_threads / itrealvalue): is_running() turns False after a thread starts; two incarnations named alike compare equal"),
 "C03-oneshot_cache_leak": ("Process.oneshot() loses its try/finally", "the process vanishes in the middle of as_dict()/process_iter(attrs) after stat/status were memoised: NoSuchProcess escapes with the caches left active, later getters return stale values instead of NoSuchProcess"),
 "C03-ppid_map_read_esrch": ("ppid_map() guards only the open of /proc/<pid>/stat, not the read", "a process dies between open and read of its stat file during children(): bare ProcessLookupError"),
 "C04-reused_flag_lost_race": ("process_iter() drains the reused-PID set with for ... sorted() + clear() instead of pop()", "two threads: thread B's is_running() flags a second recycled PID while thread A is between the snapshot and clear(): the flag is lost, the stale object is yielded for ever (rebased onto fix eb6d1bf)"),
 "C04-tid_fallback_isdir": ("pid_exists() fallback uses os.path.isdir(/proc/<pid>) instead of `pid in pids()`", "a live non-leader thread id AND a failing read of /proc/<tid>/status (EACCES/EMFILE/EIO): pid_exists(tid) becomes True"),
 "C05-children_walk_hoisted_try": ("children(recursive=True): the per-child try/except wraps the whole sibling loop", "a non-last sibling vanishes between the ppid_map() snapshot and its Process() construction: later siblings and their subtrees are dropped"),
 "C05-parent_reuse_check_is_running": ("parent(): `parent.create_time() <= ctime` replaced by `parent.is_running()`", "the PID named by ppid() now belongs to a younger process: parent() returns it, parents() follows it"),
 "C07-percpu_shared_scale": ("cpu_times_percent(percpu=True) reuses the first CPU's scale for every CPU", "CPUs whose elapsed totals differ between the two samples (one counter backwards, hot-plug, first CPU with zero delta)"),
 "C07-proc_half_committed_sample": ("Process.cpu_percent() stores the wall-clock sample before reading the process times", "good call, one call failing to read /proc/<pid>/stat (EACCES), good call: CPU delta over the long interval / wall delta over the short one"),
 "C10-read_outside_lock": ("wrap_numbers() calls the raw-counter callable before taking the lock", "thread A reads, is pre-empted before the lock, thread B reads newer values and updates the history, A updates with older values: phantom wrap, every later result inflated"),
 "C10-stale_reminder_same_count": ("_remove_dead_reminders() returns early when len(new) >= len(old)", "a device wraps, then vanishes in the same snapshot in which a new device appears (count does not shrink), then comes back: stale offset applied"),
 "C14-deleted_suffix_always_stripped": ("readlink() helper strips ' (deleted)' without checking that no file of that literal name exists", "a live regular file whose real name ends in ' (deleted)': missing from open_files() or reported under a sibling's path"),
 "C14-fdinfo_read_enoent_escapes": ("open_files(): try/except covers only the open of fdinfo/<fd>, not the reads", "a descriptor closed between the open and the first read of its fdinfo file: FileNotFoundError for a live process"),
 "C15-deadline_recheck_after_sleep": ("wait_pid() sleep helper re-checks the deadline right after sleeping", "the process ends inside the single poll sleep that straddles the deadline: TimeoutExpired without a last look"),
 "C15-rt_signal_status_none": ("negsig_to_enum() becomes a dict lookup without fallback", "child killed by a signal with no signal.Signals member (real-time signals 35-63): wait()/returncode None instead of -sig"),
 "C16-memoize_store_toctou": ("memoize_when_activated store guarded by hasattr() instead of try/except AttributeError", "T2 plain getter pre-empted between the hasattr test and the store while T1 leaves its oneshot() block: bare AttributeError"),
 "C16-proc_cache_leak_on_exc": ("Process.oneshot(): self._proc.oneshot_exit() moved out of the finally clause", "block left by an exception (incl. as_dict propagating NoSuchProcess), state change, plain call: stale stat/status/smaps data"),
 "C19-cat_fallback_open_only": ("cat()/bcat() fallback only covers a failing open(), not a failing read()", "a sysfs file that exists but whose read fails (ENODEV/ENXIO/EIO on power_now, tempN_crit, tempN_label, AC/online): sensors_* raise"),
 "C19-hwmon_name_cache": ("sensors_temperatures() caches the chip name keyed on basename(dirname(base))", "two or more chips with the CentOS-style device/ nesting: every key is 'device', later chips take the first chip's name"),
 "C20-bsd_pid0_raw_pids": ("_psbsd.wrap_exceptions tests `0 in cext.pids()` instead of `0 in pids()`", "OpenBSD (native list omits PID 0, module-level pids() re-adds it) + an unexplained errno (EIO/EINVAL) on the existing PID 0: raw OSError instead of AccessDenied"),
 "C20-win_meminfo_fallback_order": ("_pswindows._get_raw_meminfo() permission fallback emits (peak_X, X) pairs in a loop", "proc_memory_info() fails with an access-denied code while proc_info() succeeds: pagefile/peak_pagefile slots swapped (vms wrong)"),
}
for d in sorted(glob.glob('/verif/seeded/*/')):
    sid = os.path.basename(d.rstrip('/'))
    c = json.load(open(d + 'confirm.json')) if os.path.exists(d + 'confirm.json') else {}
    t = json.load(open(d + 'tests.json')) if os.path.exists(d + 'tests.json') else {}
    what, needs = D.get(sid, ("", ""))
    meta = {
        "id": sid, "property": sid.split('-')[0], "origin": "independent sub-agent given only the property text and a scratch worktree",
        "change": what, "needs_to_manifest": needs,
        "confirmed": {
            "patch_applies_to_repo_HEAD": c.get("applies"),
            "package_imports": c.get("imports"),
            "demo_exit_on_unmodified_tree": c.get("demo_exit_clean_tree"),
            "demo_exit_on_mutated_tree": c.get("demo_exit_mutated_tree"),
            "existing_test_suite_vs_baseline": t.get("baseline_compare", c.get("existing_tests_vs_baseline")),
            "pytest_summary": t.get("pytest_summary"),
            "ran": "tools/confirm_seeded.sh (scratch worktree of /repo HEAD under /tmp, build_ext --inplace, demo on both trees, ./vcheck <prop> --tier quick with VERIF_PATCH) and tools/confirm_tests.sh (full baseline pytest command, compared with BASELINE.json stable_pass)",
        },
        "detected_by": {"check": sid.split('-')[0] + " quick", "exit": c.get("quick_check_exit"),
                        "first_violations": c.get("quick_check_first_violations")},
    }
    json.dump(meta, open(d + 'meta.json', 'w'), indent=1)
print("ok")
