#!/bin/bash
# usage: tools/recheck_seed.sh <seed> [seeded-id ...]   (default: all)
# Like recheck_seeded.sh but with an explicit VERIF_SEED (the harness runs the
# quick tier with VERIF_SEED=1) and without touching confirm.json: prints one
# line per stored change; anything but rc=1 deserves a look.
cd "$(dirname "$0")/.."
seed=$1; shift
ids=${@:-$(ls seeded)}
for id in $ids; do
  prop=${id%%-*}
  [ -f seeded/$id/check ] && prop=$(cat seeded/$id/check)
  chk=$(VERIF_SEED=$seed VERIF_PATCH=$PWD/seeded/$id/patch.diff VERIF_JOBS=${VERIF_JOBS:-16} ./vcheck $prop --tier quick 2>&1); rc=$?
  first=$(echo "$chk" | grep -E "^  C[0-9]" | head -1 | cut -c1-160)
  echo "$id seed=$seed rc=$rc :: $first"
done
