#!/bin/bash
# usage: tools/recheck_seeded.sh [seeded-id ...]   (default: all)
# Re-runs only the quick check against each stored breaking change (VERIF_PATCH
# on the scratch copy) and refreshes quick_check_* in its confirm.json.
cd "$(dirname "$0")/.."
ids=${@:-$(ls seeded)}
for id in $ids; do
  prop=${id%%-*}
  out=seeded/$id
  # a change written against one property may be one that another property's
  # check is responsible for (e.g. a thread schedule): seeded/<id>/check names it
  [ -f $out/check ] && prop=$(cat $out/check)
  chk=$(VERIF_PATCH=$PWD/$out/patch.diff VERIF_JOBS=${VERIF_JOBS:-16} ./vcheck $prop --tier quick 2>&1); rc=$?
  first=$(echo "$chk" | grep -E "^  C[0-9]" | head -2 | cut -c1-300 | tr '\n' ' ' | tr '"' "'")
  /venv/bin/python - "$out/confirm.json" "$rc" "$first" <<'PY'
import json, sys
p, rc, first = sys.argv[1], int(sys.argv[2]), sys.argv[3]
d = json.load(open(p))
d["quick_check_exit"] = rc
d["quick_check_first_violations"] = first
json.dump(d, open(p, "w"), indent=1)
PY
  echo "$id rc=$rc :: $(echo "$first" | cut -c1-160)"
done
