#!/venv/bin/python
import json, sys
r = json.load(open(sys.argv[1]))
p = r["plan"]
print("SIG", r["signature"]); print("MSG", r["message"]); print("boot", r["boot"], "hashseed", r["hashseed"])
if "ops" in p:
    for o in p["ops"]:
        if o["op"] == "ev":
            e = o["ev"]; print("   EV", {k: v for k, v in e.items() if k in ("ev","pid","ppid","delta","dt","as_zombie","status","reap","tid","attrs","is_child")})
        else:
            print("  ", {k: v for k, v in o.items()})
    for e in p.get("inside", []):
        print("   INSIDE op_id=%s n=%s" % (e["op_id"], e["n"]), {k: v for k, v in e["ev"].items() if k in ("ev","pid","ppid","delta","dt","as_zombie","status","reap","is_child")})
    print("   procs", [(x["pid"], x["ppid"], x.get("starttime"), x.get("zombie"), x.get("is_child")) for x in p["world"]["procs"]], {k: v for k, v in p["world"].items() if k not in ("procs", "files")})
else:
    print(json.dumps({k: v for k, v in p.items() if k != "world"}, indent=0)[:3000])
