#!/bin/bash
# usage: tools/soak.sh <first_seed> <last_seed> [tier] [checks...]
# runs every check for each seed, prints one line per (check, seed)
cd "$(dirname "$0")/.."
first=${1:-1}; last=${2:-5}; tier=${3:-quick}; shift 3
checks=${@:-C01 C02 C03 C04 C05 C07 C10 C14 C15 C16 C19 C20}
for seed in $(seq $first $last); do
  for c in $checks; do
    out=$(VERIF_JOBS=${VERIF_JOBS:-16} ./vcheck $c --tier $tier --seed $seed 2>&1); rc=$?
    echo "seed=$seed $c rc=$rc $(echo "$out" | grep -E "^C[0-9]+ tier" | cut -c1-120)"
    if [ $rc -ne 0 ]; then echo "$out" | grep -E "VIOLATION|HARNESS|^  C[0-9]" | cut -c1-400 | head -12; fi
  done
done
